#!/bin/bash
# Run once after a fresh restore (offline): generate the runtime overlay and warm the build cache.
set -eu
cd "$(dirname "$0")"
export GOFLAGS=-mod=mod GOPROXY=off GOSUMDB=off GOTOOLCHAIN=local
mkdir -p .build/bin evidence replays
python3 tools/mkoverlay.py
cp /repo/go.sum mc/go.sum
(cd mc && go build -tags verif -overlay ../.build/overlay.json -o ../.build/bin/mc-setup ./cmd/mc)
.build/bin/mc-setup -list >/dev/null
rm -f .build/bin/mc-setup
echo "setup ok"
