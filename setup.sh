#!/bin/bash
# Run once after a fresh restore (offline): generate the runtime overlay and warm the build cache.
set -eu
cd "$(dirname "$0")"
export GOFLAGS=-mod=mod GOPROXY=off GOSUMDB=off GOTOOLCHAIN=local
mkdir -p .build/bin evidence replays
python3 tools/mkoverlay.py
cp /repo/go.sum mc/go.sum
(cd mc && go build -tags verif -overlay ../.build/overlay.json -o ../.build/bin/mc-setup ./cmd/mc)
.build/bin/mc-setup -list >/dev/null
rm -f .build/bin/mc-setup
# warm the caches of the C19 pipeline (instrumented build and -race build)
(cd mc && go build -race -o ../.build/bin/race19-setup ./cmd/race19 && go build -o ../.build/bin/instr-setup ./cmd/instr)
rm -f .build/bin/race19-setup .build/bin/instr-setup
echo "setup ok"
