#!/usr/bin/env python3
"""Validate MANIFEST.json and every evidence file against the schemas (run with python3-vt)."""
import json, sys, glob, jsonschema
ok = True
m = json.load(open('/verif/MANIFEST.json'))
try:
    jsonschema.validate(m, json.load(open('/root/.vp/MANIFEST.schema.json')))
    print("MANIFEST ok: %d checks, %d not_applicable" % (len(m['checks']), len(m.get('not_applicable', []))))
except Exception as e:
    ok = False; print("MANIFEST INVALID:", e)
es = json.load(open('/root/.vp/EVIDENCE.schema.json'))
for c in m['checks']:
    p = c['evidence_file']
    try:
        e = json.load(open(p)); jsonschema.validate(e, es)
        cov = e['coverage']
        print("%s ok tier=%s states=%s transitions=%s validated=%s nontrivial=%s exhaustive=%s wall=%.1f" % (
            e['property_id'], e['tier'], cov.get('states'), cov.get('transitions'),
            cov.get('traces_validated_against_impl'), cov.get('distinct_nontrivial'), cov.get('exhaustive'), e['wall_s']))
    except Exception as ex:
        ok = False; print(p, "INVALID:", str(ex)[:300])
ids = {json.loads(l)['id'] for l in open('/verif/properties.jsonl')}
claimed = {c['property_id'] for c in m['checks']} | {n['property_id'] for n in m.get('not_applicable', [])}
if ids != claimed:
    ok = False; print("properties not accounted for:", sorted(ids - claimed), sorted(claimed - ids))
sys.exit(0 if ok else 1)
