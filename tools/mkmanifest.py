#!/usr/bin/env python3
"""Write /verif/MANIFEST.json from the table below (single source of truth for what is claimed)."""
import json

# id -> (technique, level text, level_note, design_ref)
CLAIMED = {
 "C05": ("exhaustive choice-tree enumeration (E1): all ordered pairs of voxels of each world and all pairs of short lists through both overlap implementations vs the ancestor-relation reference",
         "All ordered pairs of the 150-300 voxels of each world (root classes incl. f=-1|0 twin, top and bottom index, 2 levels of descendants per axis, parents) and all pairs of lists of length 0..3 are decided against ref.Overlap, for the extended checks and for the radix-tree checks inside the documented altitude range incl. zooms > 25.",
         "Trusted: ref.Overlap. Voxels outside the worlds and lists longer than 3 are not covered.", "4/C05"),
 "C08": ("exhaustive choice-tree enumeration (E1) of IDs x stencils and short lists x layer counts vs set comprehension over the modular-shift model",
         "Full product of zooms x index classes (grid edges) x stencil, and list shapes x layer counts 0..4: result set, multiset size, duplicate freedom, exact count and self-exclusion where the stencil fits, symmetry of the relation.",
         "Trusted: ref.Vox.Shift. Lists longer than 3 and layer counts above 4 are not covered.", "4/C08"),
 "C03": ("explicit-state BFS (E2) over the VoxelSets operation machine with lock-step dyadic-box reference model + exhaustive choice-tree enumeration (E1) of the per-axis helpers",
         "Every zoom-change transition of the machine (all states reachable within the depth bound from each world, 25 target zoom pairs each) is compared with an integer dyadic-box model through both APIs; the exported per-axis helpers are enumerated over all zoom pairs x index classes.",
         "Trusted: ref.ChangeZoom (shifts). Bounds: BFS depth 3 quick / 4 thorough, state size <= 160, output <= 2048 IDs per call; indices outside alphabet classes not covered.", "4/C03"),
 "C04": ("explicit-state BFS (E2) over the VoxelSets operation machine; each merge transition checked against dyadic-box reference, region equality by cell refinement, idempotence",
         "Every merge transition reachable within the depth bound is compared with the reference merge, with an independent region-equality check, duplicate check, second application, and the single-zoom API on h=v states.",
         "Trusted: ref.Merge/ref.Cells. Bounds as C03 plus <= 12000 unit cells per merge call.", "4/C04"),
 "C07": ("stateless choice-tree enumeration (E1) of IDs x shifts vs integer modular arithmetic + explicit-state BFS of the complete torus at zooms 0..3",
         "Exhaustive enumeration of a bounded input space (all zooms x index classes x offset classes relative to 2^h) and of the complete reachable state space of the shift machine at zooms 0..3; every execution/transition is compared with an integer reference model, and the algebraic laws (identity, composition, inverse) are checked on all pairs of a shift sub-alphabet.",
         "Trusted: Go toolchain, ref.Vox.Shift (10 lines of modular arithmetic). Nothing is claimed for indices/offsets outside the alphabet classes.", "4/C07"),
}
PENDING = {}
props = [json.loads(l) for l in open('/verif/properties.jsonl')]
checks, na = [], []
for p in props:
    i = p['id']
    if i in CLAIMED:
        tech, text, note, ref = CLAIMED[i]
        checks.append({
            "property_id": i,
            "quick_cmd": "./check.sh %s quick" % i,
            "thorough_cmd": "./check.sh %s thorough" % i,
            "evidence_file": "/verif/evidence/%s.json" % i,
            "replay_cmd_template": "./check.sh %s replay {path}" % i,
            "engine": "mc",
            "level_claimed": {"category": "model_checking", "text": text, "design_ref": "DESIGN.md section " + ref},
            "level_note": note,
            "technique": tech,
        })
    else:
        na.append({"property_id": i, "reason": PENDING.get(i, "check not built yet (work in progress, see DESIGN.md section 10); nothing is claimed for this property at this commit")})
m = {
 "version": 1,
 "setup_cmd": "./setup.sh",
 "hooks": {
  "guard": "verif",
  "enable": "go build -tags verif -overlay /verif/.build/overlay.json (runtime overlay owning map iteration order; no source hooks in /repo are needed)",
  "baseline_off_cmd": "cd /repo && GOFLAGS=-mod=mod GOPROXY=off GOSUMDB=off GOTOOLCHAIN=local go test -json -vet=off -count=1 -timeout 25m ./...",
  "source_commits": [],
  "add_only": True,
 },
 "engines": [
  {"name": "mc", "path": "/verif/mc", "serves_properties": sorted(CLAIMED), "kind_free_text": "hand-written Go model checker: E1 stateless deviation-bounded choice-tree explorer (inputs, map-iteration starts, schedules), E2 explicit-state BFS over operation machines with lock-step reference models, process-sharded over 16 workers"},
 ],
 "checks": checks,
 "not_applicable": na,
 "notes": "All checks rebuild /verif/mc against /repo's working tree (replace directive) on every call. Exit 2 = infrastructure error, never a verdict.",
}
json.dump(m, open('/verif/MANIFEST.json', 'w'), indent=1)
print("claimed:", sorted(CLAIMED), "unclaimed:", len(na))
