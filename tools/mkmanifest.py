#!/usr/bin/env python3
"""Write /verif/MANIFEST.json from the table below (single source of truth for what is claimed)."""
import json

# id -> (technique, level text, level_note, design_ref)
CLAIMED = {
 "C19": ("stateless interleaving exploration (E4): real goroutines under a cooperative scheduler with scheduling points at every instrumented access to written package-level state and every sync/atomic operation; vector-clock race decision; solo-result comparison; deep state snapshots; free-running -race pass as auxiliary",
         "The current tree is re-instrumented on every run (go/ast + go/types over the library and its four first-party dependencies); all ordered pairs and (f,f,f) triples of 46 representative calls on shared arguments are explored over all interleavings within the deviation bound (2 quick, unbounded thorough); L2 digests every package-level variable and every shared argument around each solo call; L3 runs the same calls free-running under the race detector.",
         "Trusted: the instrumenter (a missed access weakens L1 only; L2/L3 do not depend on it), the sync/atomic shims, the cooperative scheduler. Hardware memory ordering is not modelled. Reads of variables that no instrumented statement writes are not scheduling points (they are independent of everything).", "4/C19"),
 "C14": ("stateless exploration (E1) with map-iteration starts owned as environment choices (quick: <= 1 deviation over 16 iteration starts; thorough: <= 1 deviation over 64 starts on the wide alphabets plus <= 2 deviations over 8 starts on the quick alphabets) over segments x radii x skip flag; relational oracle + independent ECEF distance",
         "For every input of the alphabet every execution within the deviation bound is checked: duplicate-free, requested zooms, superset of the line, radius 0 = line, added IDs inside the maximal fitted-layer box, measured subset of skipped, no added voxel beyond the radius by an independent segment-to-quadrilateral distance, and identical result across executions.",
         "Trusted: runtime overlay (7 patched files), ref.SegQuadDist/ECEF. Lines <= 12 voxels, radii <= 2.5 voxel widths and below 80% of the largest reachable chord (the layer fit does not terminate beyond).", "4/C14"),
 "C16": ("stateless exploration (E1) with map-iteration starts owned as environment choices: operations x argument lists x permutations/duplications x all executions within the deviation bound, each compared with the default-order result of the base list",
         "15 list operations x 5-7 base lists per world x all permutations and doublings, plus line and corridor queries on 5 segments x 5 modes; every map iteration in the library and its dependencies is a choice point (quick: <= 1 deviation, thorough: <= 2 deviations and 2 hash seeds); results must be one set per argument set, duplicate-free where documented, inputs untouched.",
         "Trusted: runtime overlay. Enumerates start bucket x offset of the runtime's iteration, not all n! orders the language allows; maps above 52 entries are offered 64 starts (counted as capped).", "4/C16"),
 "C17": ("exhaustive choice-tree enumeration (E1) of voxels x output zooms x dyadic and non-dyadic height ranges in both directions vs exact rational subdivision",
         "Voxels inside, straddling and outside each of 7 ranges x zoom alphabets: the returned run must be contiguous, within 0..2^z-1, and equal to [idx(bottom), idx(top)] of the exact subdivision (decisive for dyadic ranges, 64-ulp band otherwise); the inverse must cover the cell interval; reversed ranges are errors.",
         "Trusted: big.Rat subdivision. Runs above 4096 cells skipped and counted.", "4/C17"),
 "C18": ("exhaustive choice-tree enumeration (E1) of a point alphabet x list shapes for EPSG:3857 vs closed-form spherical Mercator and round trip; every code of the bundled EPSG table; unknown codes",
         "600 points (domain edges, both hemispheres, 6 altitudes) for the numeric claims, all list shapes up to length 3 for order/length, every EPSG code with a covered candidate point for the structural claims. One known finding (altitude perturbs the horizontal result) is listed in known_findings.json and matched only when the same point passes at altitude 0.",
         "Closed-form reference with 1e-6 m / 2e-10 degree tolerances.", "4/C18"),
 "C01": ("exhaustive choice-tree enumeration (E1) of zoom pairs x boundary-centred coordinate alphabets vs exact rational (x,f) and tolerance-banded (y) references",
         "All zoom pairs x longitudes/altitudes at, one ulp either side of, and near every boundary class (incl. +-180, 0, the 2^25 m limits) are decided against exact big.Rat floors; latitudes either side of row boundaries against a banded reference; index range always; list length/order and nil rejection on all lists up to length 3.",
         "Trusted: big.Rat arithmetic; float64 asinh(tan) with a 2^-43 undecided band. Coordinates between boundary neighbourhoods not covered.", "4/C01"),
 "C02": ("exhaustive choice-tree enumeration (E1) of IDs over all zoom pairs x edge index classes: corner order/values, centre midpoint, relational round trip, bit-for-bit shared faces",
         "Full product of zoom pairs x first/last/middle columns and rows x both ends and signs of f; exact dyadic lon/alt corners, banded lat corners, relational round trip centre->ID, and face sharing with the east, south and upper neighbour.",
         "Trusted: exact dyadic boundary formulas; float64 inverse Mercator within the documented 1e-10 degree truncation.", "4/C02"),
 "C06": ("exhaustive choice-tree enumeration (E1) of zoom pairs x base voxels x start positions x 343 end offsets in voxel units, plus long coarse segments, vs slab-intersection test and BFS connectivity",
         "Every segment of the alphabet is checked for duplicate freedom, presence of both end voxels, every voxel touched by the segment (widened by the documented latitude resolution), 26-connectivity of the whole set, the single-voxel case and the spatial-ID form.",
         "Segments longer than 7 voxels per axis are covered only at coarse zooms; positions outside the alphabets not covered.", "4/C06"),
 "C09": ("exhaustive choice-tree enumeration (E1) of relational equalities between the library's own operations (no model)",
         "All ordered zoom pairs per axis x a 98-point alphabet (both hemispheres, both signs of altitude, tile boundaries): coarse ID = zoom-out of fine ID, all IDs of a point pairwise overlap; IDs x refinements up to 3 levels: zoom in/out identity and merge of all descendants.",
         "Relational oracle; each side is separately decided by C01/C03/C04/C05.", "4/C09"),
 "C13": ("exhaustive choice-tree enumeration (E1) of tile lists x (exponent, offset, output zoom) vs per-tile C12 conversion, exact interval reference and expansion reference",
         "Full product of tile vertical zoom x exponent x output zoom x index class x offset x footprint class x 8 list shapes (overlapping ranges, duplicates, a bad tile in each position): footprint kept, zoom, exact per-tile index set, containment of the tile interval, duplicate freedom, whole-call failure, and the spatial-ID variant as union of expansions.",
         "Trusted: ref.AltKeyToZ, ref.ChangeZoom. Calls predicted above 600 IDs are skipped and counted.", "4/C13"),
 "C15": ("exhaustive choice-tree enumeration (E1): every string over an 8-letter alphabet up to length 5 (quick) / 7 (thorough) and every string of length 8-9 over a 4- (quick) / 7-letter (thorough) alphabet, every bad-field placement and arity edit, every invalid numeric/point argument, through 24 ID-consuming and ~30 argument-taking functions vs a re-implemented input grammar",
         "Every candidate string is classified by an independent grammar (exactly strconv.ParseInt's language, exact arity) and every error-returning exported function must reject the malformed ones without panicking; invalid zooms, options, radii, layer counts, nil points and out-of-range coordinates must give errors and empty results; accepted points keep lon/alt bit-for-bit.",
         "Trusted: ref.ParseInt grammar. Strings beyond the length bound only via mutation tokens; the latitude sliver (85.0511287798, 85.0511287799) is not judged.", "4/C15"),
 "C20": ("exhaustive choice-tree enumeration (E1) of slices, (index, shift) pairs, (n,k), vector and matrix alphabets vs map/set, big-integer and direct-formula references",
         "All pairs of slices over a 3-letter alphabet up to length 3 (quick) / 4 (thorough), all shifts in [-62,62] of a dense index window plus boundary classes, all 0<=k<=n<=12, vector pairs incl. exact opposites, matrix triples.",
         "Trusted: Go maps, math/big; float laws with stated relative tolerances.", "4/C20"),
 "C10": ("exhaustive choice-tree enumeration (E1) of IDs and short lists through notation conversions, object parse/print and expansion vs string permutation and dyadic-box reference",
         "Full products over zoom pairs x index classes (distinct components so swaps show) for parse/print/getters; all list shapes of length 0..3 for the notation round trips; all zoom differences |h-v| <= 4 for the expansion (duplicate-free, count, region).",
         "Trusted: ref.Vox formatting and ref.ChangeZoom.", "4/C10"),
 "C11": ("exhaustive choice-tree enumeration (E1): all tiles of zooms 1..7 (quick) / 1..10 (thorough), index classes at zooms up to 31, short lists x output zoom windows, vs bit-interleave and dyadic-box reference",
         "Bijection and digit order decided on every tile of the small zooms and on boundary/alternating-bit classes above; round trip identity; zoom-changing conversion equals per-axis zoom change; no pair twice across groups; groups echo parameters; altitude-key form shares the horizontal part; spatial-ID wrappers.",
         "Trusted: ref.Quadkey/FromQuadkey/ChangeZoom. Zoom differences above 3 and lists longer than 3 not covered.", "4/C11"),
 "C12": ("exhaustive choice-tree enumeration (E1) of (zoom,zoom,exponent,index,offset) in both directions vs exact big-integer interval arithmetic; dense band for the mutual-consistency law",
         "Every combination of the zoom alphabet cubed x index classes (incl. top, bottom, out-of-range) x 18 offsets is compared with the exact covering range and the metre-widened range, including the error rule; a dense band (zooms 22..28, all f in [-40,40], 38 offsets) additionally decides the two-direction consistency in the exact regime.",
         "Trusted: ref.ZToAltKey/AltKeyToZ (big.Int shifts). Values outside the alphabets and band are not covered.", "4/C12"),
 "C05": ("exhaustive choice-tree enumeration (E1): all ordered pairs of voxels of each world and all pairs of short lists through both overlap implementations vs the ancestor-relation reference",
         "All ordered pairs of the 150-300 voxels of each world (root classes incl. f=-1|0 twin, top and bottom index, 2 levels of descendants per axis, parents) and all pairs of lists of length 0..3 are decided against ref.Overlap, for the extended checks and for the radix-tree checks inside the documented altitude range incl. zooms > 25.",
         "Trusted: ref.Overlap. Voxels outside the worlds and lists longer than 3 are not covered.", "4/C05"),
 "C08": ("exhaustive choice-tree enumeration (E1) of IDs x stencils and short lists x layer counts vs set comprehension over the modular-shift model",
         "Full product of zooms x index classes (grid edges) x stencil, and list shapes x layer counts 0..4: result set, multiset size, duplicate freedom, exact count and self-exclusion where the stencil fits, symmetry of the relation.",
         "Trusted: ref.Vox.Shift. Lists longer than 3 and layer counts above 4 are not covered.", "4/C08"),
 "C03": ("explicit-state BFS (E2) over the VoxelSets operation machine with lock-step dyadic-box reference model + exhaustive choice-tree enumeration (E1) of the per-axis helpers (indices up to the ends of int64 for zoom-outs), of respelled IDs and of long lists",
         "Every zoom-change transition of the machine (all states reachable within the depth bound from each world, 25 target zoom pairs each) is compared with an integer dyadic-box model through both APIs; the exported per-axis helpers are enumerated over all zoom pairs x index classes.",
         "Trusted: ref.ChangeZoom (shifts). Bounds: BFS depth 3 quick / 4 thorough, state size <= 160, output <= 2048 IDs per call; indices outside alphabet classes not covered.", "4/C03"),
 "C04": ("explicit-state BFS (E2) over the VoxelSets operation machine; each merge transition checked against dyadic-box reference, region equality by cell refinement, idempotence; choice-tree enumeration (E1) of textual-prefix lists, respelled IDs and merge targets 20-35 levels coarser than the input",
         "Every merge transition reachable within the depth bound is compared with the reference merge, with an independent region-equality check, duplicate check, second application, and the single-zoom API on h=v states.",
         "Trusted: ref.Merge/ref.Cells. Bounds as C03 plus <= 12000 unit cells per merge call.", "4/C04"),
 "C07": ("stateless choice-tree enumeration (E1) of IDs x shifts vs integer modular arithmetic + explicit-state BFS of the complete torus at zooms 0..3",
         "Exhaustive enumeration of a bounded input space (all zooms x index classes x offset classes relative to 2^h) and of the complete reachable state space of the shift machine at zooms 0..3; every execution/transition is compared with an integer reference model, and the algebraic laws (identity, composition, inverse) are checked on all pairs of a shift sub-alphabet.",
         "Trusted: Go toolchain, ref.Vox.Shift (10 lines of modular arithmetic). Nothing is claimed for indices/offsets outside the alphabet classes.", "4/C07"),
}
PENDING = {}
props = [json.loads(l) for l in open('/verif/properties.jsonl')]
checks, na = [], []
for p in props:
    i = p['id']
    if i in CLAIMED:
        tech, text, note, ref = CLAIMED[i]
        checks.append({
            "property_id": i,
            "quick_cmd": "./check.sh %s quick" % i,
            "thorough_cmd": "./check.sh %s thorough" % i,
            "evidence_file": "/verif/evidence/%s.json" % i,
            "replay_cmd_template": "./check.sh %s replay {path}" % i,
            "engine": "mc",
            "level_claimed": {"category": "model_checking", "text": text, "design_ref": "DESIGN.md section " + ref},
            "level_note": note,
            "technique": tech,
        })
    else:
        na.append({"property_id": i, "reason": PENDING.get(i, "check not built yet (work in progress, see DESIGN.md section 10); nothing is claimed for this property at this commit")})
m = {
 "version": 1,
 "setup_cmd": "./setup.sh",
 "hooks": {
  "guard": "verif",
  "enable": "go build -tags verif -overlay /verif/.build/overlay.json (runtime overlay owning map iteration order; no source hooks in /repo are needed)",
  "baseline_off_cmd": "cd /repo && GOFLAGS=-mod=mod GOPROXY=off GOSUMDB=off GOTOOLCHAIN=local go test -json -vet=off -count=1 -timeout 25m ./...",
  "source_commits": [],
  "add_only": True,
 },
 "engines": [
  {"name": "mc", "path": "/verif/mc", "serves_properties": sorted(CLAIMED), "kind_free_text": "hand-written Go model checker: E1 stateless deviation-bounded choice-tree explorer (inputs, map-iteration starts, schedules), E2 explicit-state BFS over operation machines with lock-step reference models, process-sharded over 16 workers"},
 ],
 "checks": checks,
 "not_applicable": na,
 "notes": "All checks rebuild /verif/mc against /repo's working tree (replace directive) on every call. Exit 2 = infrastructure error, never a verdict.",
}
json.dump(m, open('/verif/MANIFEST.json', 'w'), indent=1)
print("claimed:", sorted(CLAIMED), "unclaimed:", len(na))
