// Package c19calls lists one representative call per exported library
// function, all on the same shared argument objects. It has no dependency on
// the instrumentation overlay so that the free-running -race pass can use the
// unmodified library.
package c19calls

import (
	"fmt"
	"sort"

	"github.com/trajectoryjp/spatial_id_go/v4/common"
	"github.com/trajectoryjp/spatial_id_go/v4/common/enum"
	"github.com/trajectoryjp/spatial_id_go/v4/common/object"
	"github.com/trajectoryjp/spatial_id_go/v4/common/spatial"
	"github.com/trajectoryjp/spatial_id_go/v4/detector"
	"github.com/trajectoryjp/spatial_id_go/v4/integrate"
	"github.com/trajectoryjp/spatial_id_go/v4/operated"
	"github.com/trajectoryjp/spatial_id_go/v4/shape"
	"github.com/trajectoryjp/spatial_id_go/v4/transform"
)

// shared arguments: every call below reads these same slices and objects. The list
// arguments are windows into larger arrays (len < cap) with sentinel entries behind them, as a
// caller's `all[:k]` would be: a callee that appends to its read-only argument writes into
// memory that other goroutines share. The backing arrays are part of SharedArgs, so the
// digests see such a write, and two concurrent calls doing it are a write/write race.
var (
	shIDsBack   = []string{"3/1/2/3/-1", "3/1/2/3/0", "4/2/4/4/-2", "4/3/5/4/1", "guard/0", "guard/1", "guard/2", "guard/3"}
	shIDs       = shIDsBack[:4]
	shIDsBBack  = []string{"3/1/2/3/5", "5/5/9/5/-3", "guard/0", "guard/1", "guard/2", "guard/3"}
	shIDsB      = shIDsBBack[:2]
	shSpBack    = []string{"3/-1/1/2", "3/0/1/2", "4/-2/2/4", "guard/0", "guard/1", "guard/2", "guard/3"}
	shSp        = shSpBack[:3]
	shSpBBack   = []string{"3/1/0/0", "5/-3/5/9", "guard/0", "guard/1", "guard/2", "guard/3"}
	shSpB       = shSpBBack[:2]
	shP1, _     = object.NewPoint(139.70, 35.60, 10)
	shP2, _     = object.NewPoint(139.7005, 35.6004, -40)
	shPG, _     = object.NewPoint(1, 2, 3)
	shPtsBack   = []*object.Point{shP1, shP2, shPG, shPG, shPG}
	shPts       = shPtsBack[:2]
	shTile, _   = object.NewTileXYZ(3, 1, 2, 25, 100)
	shTile2, _  = object.NewTileXYZ(3, 1, 2, 25, 101)
	shTileG, _  = object.NewTileXYZ(1, 1, 1, 25, 7)
	shTilesBack = []*object.TileXYZ{shTile, shTile2, shTileG, shTileG, shTileG}
	shTiles     = shTilesBack[:2]
	shQVG       = object.NewQuadkeyAndVerticalID(1, 1, 1, 1, 0, 0)
	shQVBack    = []*object.QuadkeyAndVerticalID{object.NewQuadkeyAndVerticalID(3, 27, 3, -1, 0, 0), object.NewQuadkeyAndVerticalID(6, 2914, 7, 75, 256, -256), shQVG, shQVG, shQVG}
	shQV        = shQVBack[:2]
	shExtObj, _ = object.NewExtendedSpatialID("3/1/2/5/-7")
	shProjBack  = []*object.ProjectedPoint{{X: 15551000, Y: 4250000, Alt: 5}, {X: 1, Y: 2, Alt: 3}, {X: 1, Y: 2, Alt: 3}}
	shProj      = shProjBack[:1]
)

// SharedArgs returns pointers to every shared argument object (for the lists: the window
// header and the whole backing array, spare capacity included).
func SharedArgs() []any {
	return []any{&shIDs, &shIDsB, &shSp, &shSpB, shP1, shP2, &shPts, shTile, shTile2, &shTiles, &shQV, shExtObj, &shProj,
		&shIDsBack, &shIDsBBack, &shSpBack, &shSpBBack, &shPtsBack, &shTilesBack, &shQVBack, &shProjBack}
}

func canon(list []string, err error) string {
	s := append([]string(nil), list...)
	sort.Strings(s)
	return fmt.Sprintf("%v|%v", s, err)
}

func pts(p []*object.Point, err error) string {
	var s []string
	for _, x := range p {
		s = append(s, fmt.Sprint(*x))
	}
	return fmt.Sprintf("%v|%v", s, err)
}

// Call is one representative call of an exported function.
type Call struct {
	Name string
	Fn   func() string
}

// Calls lists one representative call per exported function.
func Calls() []Call {
	return []Call{
		{"shape.GetExtendedSpatialIdsOnPoints", func() string { return canon(shape.GetExtendedSpatialIdsOnPoints(shPts, 20, 18)) }},
		{"shape.GetSpatialIdsOnPoints", func() string { return canon(shape.GetSpatialIdsOnPoints(shPts, 20)) }},
		{"shape.GetPointOnExtendedSpatialId(vertex)", func() string { return pts(shape.GetPointOnExtendedSpatialId(shIDs[0], enum.Vertex)) }},
		{"shape.GetPointOnSpatialId(center)", func() string { return pts(shape.GetPointOnSpatialId(shSp[0], enum.Center)) }},
		{"shape.GetPointOnExtendedSpatialId(center, another voxel)", func() string { return pts(shape.GetPointOnExtendedSpatialId(shIDs[3], enum.Center)) }},
		{"shape.GetExtendedSpatialIdsOnLine", func() string { return canon(shape.GetExtendedSpatialIdsOnLine(shP1, shP2, 20, 20)) }},
		{"shape.GetSpatialIdsOnLine", func() string { return canon(shape.GetSpatialIdsOnLine(shP1, shP2, 19)) }},
		{"shape.ConvertPointListToProjectedPointList", func() string {
			r, err := shape.ConvertPointListToProjectedPointList(shPts, 3857)
			var s []string
			for _, x := range r {
				s = append(s, fmt.Sprint(*x))
			}
			return fmt.Sprint(s, err)
		}},
		{"shape.ConvertProjectedPointListToPointList", func() string { return pts(shape.ConvertProjectedPointListToPointList(shProj, 3857)) }},
		{"shape.ConvertSpatialIdsToExtendedSpatialIds", func() string { return canon(shape.ConvertSpatialIdsToExtendedSpatialIds(shSp)) }},
		{"shape.ConvertExtendedSpatialIdsToSpatialIds", func() string { return canon(shape.ConvertExtendedSpatialIdsToSpatialIds(shIDs)) }},
		{"shape.CheckZoom", func() string { return fmt.Sprint(shape.CheckZoom(35), shape.CheckZoom(36)) }},
		{"integrate.ChangeExtendedSpatialIdsZoom", func() string { return canon(integrate.ChangeExtendedSpatialIdsZoom(shIDs, 4, 2)) }},
		{"integrate.ChangeSpatialIdsZoom", func() string { return canon(integrate.ChangeSpatialIdsZoom(shSp, 4)) }},
		{"integrate.MergeExtendedSpatialIds", func() string { return canon(integrate.MergeExtendedSpatialIds(shIDs, 2, 2)) }},
		{"integrate.MergeSpatialIds", func() string { return canon(integrate.MergeSpatialIds(shSp, 2)) }},
		{"integrate.HorizontalZoom", func() string { return canon(integrate.HorizontalZoom(3, 1, 2, 5), nil) }},
		{"integrate.VerticalZoom", func() string { return canon(integrate.VerticalZoom(5, -7, 2), nil) }},
		{"operated.GetShiftingSpatialID", func() string { return operated.GetShiftingSpatialID(shIDs[0], 9, -9, 3) }},
		{"operated.Get6spatialIdsAdjacentToFaces", func() string { return canon(operated.Get6spatialIdsAdjacentToFaces(shIDs[1]), nil) }},
		{"operated.Get8spatialIdsAroundHorizontal", func() string { return canon(operated.Get8spatialIdsAroundHorizontal(shIDs[1]), nil) }},
		{"operated.Get26spatialIdsAroundVoxel", func() string { return canon(operated.Get26spatialIdsAroundVoxel(shIDs[2]), nil) }},
		{"operated.GetNspatialIdsAroundVoxcels", func() string { return canon(operated.GetNspatialIdsAroundVoxcels(shIDs, 1, 2)) }},
		{"detector.CheckSpatialIdsOverlap", func() string { return fmt.Sprint(detector.CheckSpatialIdsOverlap(shSp[0], shSp[2])) }},
		{"detector.CheckSpatialIdsArrayOverlap", func() string { return fmt.Sprint(detector.CheckSpatialIdsArrayOverlap(shSp, shSpB)) }},
		{"detector.CheckExtendedSpatialIdsOverlap", func() string { return fmt.Sprint(detector.CheckExtendedSpatialIdsOverlap(shIDs[0], shIDs[2])) }},
		{"detector.CheckExtendedSpatialIdsArrayOverlap", func() string { return fmt.Sprint(detector.CheckExtendedSpatialIdsArrayOverlap(shIDs, shIDsB)) }},
		{"transform.ConvertExtendedSpatialIDsToQuadkeysAndVerticalIDs", func() string {
			r, err := transform.ConvertExtendedSpatialIDsToQuadkeysAndVerticalIDs(shIDs, 4, 4, 0, 0)
			var s []string
			for _, g := range r {
				for _, p := range g.InnerIDList() {
					s = append(s, fmt.Sprint(p))
				}
			}
			return canon(s, err)
		}},
		{"transform.ConvertExtendedSpatialIDsToQuadkeysAndVerticalIDs(height-range)", func() string {
			r, err := transform.ConvertExtendedSpatialIDsToQuadkeysAndVerticalIDs(shIDs, 4, 7, 1e7, -1e7)
			var s []string
			for _, g := range r {
				for _, p := range g.InnerIDList() {
					s = append(s, fmt.Sprint(p))
				}
			}
			return canon(s, err)
		}},
		{"transform.ConvertSpatialIDsToQuadkeysAndVerticalIDs", func() string {
			r, err := transform.ConvertSpatialIDsToQuadkeysAndVerticalIDs(shSp, 4, 4, 0, 0)
			return fmt.Sprint(len(r), err)
		}},
		{"transform.ConvertExtendedSpatialIDsToQuadkeysAndAltitudekeys", func() string {
			r, err := transform.ConvertExtendedSpatialIDsToQuadkeysAndAltitudekeys(shIDs, 4, 4, 4, 16)
			var s []string
			for _, g := range r {
				for _, p := range g.InnerIDList() {
					s = append(s, fmt.Sprint(p))
				}
			}
			return canon(s, err)
		}},
		{"transform.ConvertQuadkeysAndVerticalIDsToExtendedSpatialIDs", func() string {
			return canon(transform.ConvertQuadkeysAndVerticalIDsToExtendedSpatialIDs(shQV, 5, 6))
		}},
		{"transform.ConvertQuadkeysAndVerticalIDsToSpatialIDs", func() string {
			return canon(transform.ConvertQuadkeysAndVerticalIDsToSpatialIDs(shQV[:1], 4))
		}},
		{"transform.ConvertExtendedSpatialIDToSpatialIDs", func() string { return canon(transform.ConvertExtendedSpatialIDToSpatialIDs(shExtObj), nil) }},
		{"transform.ConvertTileXYZsToExtendedSpatialIDs", func() string {
			r, err := transform.ConvertTileXYZsToExtendedSpatialIDs(shTiles, 25, 0, 26)
			var s []string
			for _, x := range r {
				s = append(s, x.ID())
			}
			return canon(s, err)
		}},
		{"transform.ConvertTileXYZsToSpatialIDs", func() string { return canon(transform.ConvertTileXYZsToSpatialIDs(shTiles, 25, 0, 5)) }},
		{"transform.ConvertAltitudekeyToMinMaxZ", func() string { return fmt.Sprint(transform.ConvertAltitudekeyToMinMaxZ(100, 25, 27, 25, 8)) }},
		{"transform.ConvertZToMinMaxAltitudekey", func() string { return fmt.Sprint(transform.ConvertZToMinMaxAltitudekey(-5, 26, 24, 25, 1024)) }},
		{"transform.GetVoxelIDfromSpatialID", func() string { return fmt.Sprint(transform.GetVoxelIDfromSpatialID(shIDs[3])) }},
		{"transform.FitClearanceAroundExtendedSpatialID", func() string {
			return fmt.Sprint(transform.FitClearanceAroundExtendedSpatialID("20/931000/412000/20/1", 50))
		}},
		{"transform.GetExtendedSpatialIdsWithinRadiusOfLine(measure)", func() string {
			return canon(transform.GetExtendedSpatialIdsWithinRadiusOfLine(shP1, shP2, 30, 20, 20, false))
		}},
		{"transform.GetExtendedSpatialIdsWithinRadiusOfLine(skip)", func() string {
			return canon(transform.GetExtendedSpatialIdsWithinRadiusOfLine(shP1, shP2, 30, 20, 20, true))
		}},
		{"object.NewExtendedSpatialID+Higher", func() string {
			o, err := object.NewExtendedSpatialID(shIDs[2])
			return fmt.Sprint(o.Higher(1, 2).ID(), o.FieldParams(), err)
		}},
		{"object.NewPoint", func() string { p, err := object.NewPoint(-179.5, -85.05, 3); return fmt.Sprint(*p, err) }},
		{"common.set-helpers", func() string {
			return fmt.Sprint(len(common.Union(shIDs, shIDsB)), common.Intersect(shIDs, shIDs[:2]), common.Difference(shIDs, shIDs[1:]), len(common.Unique(shSp)), common.Include(shSp, "x"))
		}},
		{"common.Combinations+Shift", func() string {
			n := 0
			common.Combinations(6, 3, func([]int64) { n++ })
			return fmt.Sprint(n, common.CalculateArithmeticShift(-5, -1))
		}},
		{"spatial.RotateBetweenVector+Matrix", func() string {
			q := spatial.RotateBetweenVector(spatial.Vector3{X: 1}, spatial.Vector3{Y: 1})
			m := spatial.NewUnitMatrix3().Mul(spatial.NewMatrix3(1, 2, 3, 4, 5, 6, 7, 8, 9))
			return fmt.Sprint(q, m.MulVec(spatial.Vector3{X: 1, Y: 1, Z: 1}))
		}},
	}
}
