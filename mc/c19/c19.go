// Package c19 is the harness for property C19 (all operations may be called
// concurrently). It is built only with the instrumentation overlay.
package c19

import (
	"encoding/json"
	"fmt"
	"os"
	"os/exec"
	"sort"
	"strings"
	"time"

	closest "github.com/trajectoryjp/closest_go"
	geodesy "github.com/trajectoryjp/geodesy_go/coordinates"
	"github.com/trajectoryjp/multidimensional-radix-tree/src/tree"
	"github.com/trajectoryjp/spatial_id_go/v4/common"
	"github.com/trajectoryjp/spatial_id_go/v4/common/consts"
	"github.com/trajectoryjp/spatial_id_go/v4/common/enum"
	liberrors "github.com/trajectoryjp/spatial_id_go/v4/common/errors"
	"github.com/trajectoryjp/spatial_id_go/v4/common/object"
	"github.com/trajectoryjp/spatial_id_go/v4/common/spatial"
	"github.com/trajectoryjp/spatial_id_go/v4/detector"
	"github.com/trajectoryjp/spatial_id_go/v4/integrate"
	"github.com/trajectoryjp/spatial_id_go/v4/operated"
	"github.com/trajectoryjp/spatial_id_go/v4/shape"
	"github.com/trajectoryjp/spatial_id_go/v4/transform"
	"github.com/wroge/wgs84"

	"verif/mc/c19calls"
	"verif/mc/engine"
	"verif/mc/sched"
)

// globals returns the addresses of every package-level variable of the
// library and its first-party dependencies (generated VerifGlobals).
func globals() map[string]any {
	all := map[string]any{}
	add := func(pkg string, m map[string]any) {
		for k, v := range m {
			all[pkg+"."+k] = v
		}
	}
	add("common", common.VerifGlobals())
	add("consts", consts.VerifGlobals())
	add("enum", enum.VerifGlobals())
	add("errors", liberrors.VerifGlobals())
	add("object", object.VerifGlobals())
	add("spatial", spatial.VerifGlobals())
	add("detector", detector.VerifGlobals())
	add("integrate", integrate.VerifGlobals())
	add("operated", operated.VerifGlobals())
	add("shape", shape.VerifGlobals())
	add("transform", transform.VerifGlobals())
	add("closest_go", closest.VerifGlobals())
	add("geodesy_go/coordinates", geodesy.VerifGlobals())
	add("radix-tree", tree.VerifGlobals())
	add("wgs84", wgs84.VerifGlobals())
	return all
}

type instrReport struct {
	Packages    []string            `json:"packages"`
	Globals     map[string][]string `json:"globals"`
	AccessSites int                 `json:"access_sites"`
	WriteSites  int                 `json:"write_sites"`
	SyncImports []string            `json:"sync_imports"`
	Unsupported []string            `json:"unsupported_constructs"`
	Sites       []string            `json:"sites"`
}

func loadReport() instrReport {
	var r instrReport
	path := os.Getenv("VERIF_INSTR_REPORT")
	if path == "" {
		path = engine.VerifDir + "/.build/instr/report.json"
	}
	b, err := os.ReadFile(path)
	if err == nil {
		json.Unmarshal(b, &r)
	}
	return r
}

func init() {
	engine.Register(&engine.Check{
		ID:        "C19",
		Title:     "All operations may be called concurrently",
		Technique: "stateless interleaving exploration (E4 on E1): 2-3 real goroutines under a cooperative scheduler with scheduling points at every instrumented access to package-level state and every sync/atomic operation (source instrumentation regenerated from the current tree), all interleavings within the deviation bound, vector-clock race detection, comparison with solo results; deep snapshots of all package-level state and shared arguments around every solo call; free-running -race pass as an auxiliary",
		Assumptions: []string{
			"hardware memory-order effects are outside the cooperative scheduler's model; races are decided by the vector-clock rule over instrumented accesses",
			"state reachable only through pointers stored in globals is covered by the snapshot layer (L2), and is atomic for interleaving purposes",
			"one representative call per exported function on shared arguments; other argument values are not covered",
			"go statements, channels and select inside the library are reported as unsupported (exhaustive:false), not explored",
		},
		Phases: func(tier string) []engine.Phase {
			calls := c19calls.Calls()
			dev := 2
			if tier == "thorough" {
				dev = -1
			}
			rep := loadReport()
			for _, st := range rep.Sites {
				// "file:line id write=true"
				f := strings.Fields(st)
				if len(f) == 3 && f[2] == "write=true" {
					sched.Hot[f[1]] = true
				}
			}
			solo := map[string]string{}
			soloOf := func(cl c19calls.Call) string {
				if v, ok := solo[cl.Name]; ok {
					return v
				}
				v := cl.Fn()
				solo[cl.Name] = v
				return v
			}
			judge := func(c *engine.Ctx, ex *sched.Exec, res []sched.Result, cs []c19calls.Call) {
				names := make([]string, len(cs))
				for i := range cs {
					names[i] = cs[i].Name
				}
				d := map[string]any{"threads": names}
				c.CountN("shared_accesses", int64(ex.Accesses))
				c.CountN("cold_reads_not_scheduled", int64(ex.ColdReads))
				c.CountN("sync_ops", int64(ex.SyncOps))
				c.CountN("sched_points", int64(ex.SchedPoints))
				var ev []string
				for _, e := range ex.Events {
					ev = append(ev, fmt.Sprintf("%d:%s", e.Thread, e.Op))
				}
				d["events"] = strings.Join(ev, " ")
				c.Observe("%v %v", names, ev)
				c.Outcome(fmt.Sprint(names, ev))
				if len(ex.Unsupp) > 0 {
					c.CountN("unsupported_constructs_met", int64(len(ex.Unsupp)))
					c.NotExhaustive("the library used a concurrency construct the interleaving explorer does not schedule (" + ex.Unsupp[0] + "): its interleavings are covered only by the free-running race pass")
				}
				for _, r := range ex.Races {
					d["race"] = fmt.Sprintf("%s: [%s] unordered with [%s]", r.Loc, r.First, r.Second)
					c.Violation("C19:data-race-on:"+r.Loc, d)
				}
				if ex.Deadlock {
					c.Violation("C19:deadlock", d)
					return
				}
				for i, r := range res {
					if r.Panic != nil {
						d["panic"] = fmt.Sprint(r.Panic)
						c.Violation("C19:panic-under-concurrency:"+cs[i].Name, d)
						continue
					}
					if want := soloOf(cs[i]); r.Value != want {
						d["got"], d["solo"] = trunc(r.Value, 300), trunc(want, 300)
						c.Violation("C19:result-differs-from-solo-result:"+cs[i].Name, d)
					}
				}
			}
			// cold-start executions: the concurrent run is the FIRST thing that happens in a fresh process, so
			// lazily built tables and caches are still empty (check-then-act races on first use); the solo
			// reference is computed afterwards in the same process.
			coldInner := func(k int) func(c *engine.Ctx) {
				return func(c *engine.Ctx) {
					a := calls[c.In("f", len(calls))]
					var cs []c19calls.Call
					if k == 3 {
						cs = []c19calls.Call{a, a, a}
					} else {
						b := a
						if tier == "thorough" {
							b = calls[c.In("g", len(calls))]
						}
						cs = []c19calls.Call{a, b}
					}
					names := make([]string, len(cs))
					fns := make([]func() string, len(cs))
					for i := range cs {
						names[i], fns[i] = cs[i].Name, cs[i].Fn
					}
					ex, res := sched.Run(c, names, fns)
					if ex.SchedPoints > 1 {
						c.Nontrivial(strings.Join(names, "|"))
					}
					judge(c, ex, res, cs)
				}
			}
			Inner["cold-pairs"] = coldInner(2)
			Inner["cold-triples"] = coldInner(3)
			coldOuter := func(name string) func(c *engine.Ctx) {
				return func(c *engine.Ctx) {
					self, _ := os.Executable()
					pf := c.Prefix()
					strs := make([]string, len(pf))
					for i, v := range pf {
						strs[i] = fmt.Sprint(v)
					}
					cmd := exec.Command(self, "-oneexec", name, "-tier", tier, "-choices", strings.Join(strs, ","))
					cmd.Env = append(os.Environ(), "GOMAXPROCS=2")
					out, err := cmd.Output()
					var o engine.OneExec
					if err != nil || json.Unmarshal(out, &o) != nil {
						c.Count("cold_subprocess_failed")
						c.Skip("cold-subprocess-failed")
					}
					// re-declare the choice points so that the explorer can continue the depth-first search
					for i := range o.Arities {
						got := c.Choose(engine.Kind(o.Kinds[i]), o.Labels[i], o.Arities[i])
						if got != o.Choices[i] {
							panic("engine: cold execution diverged from its prefix")
						}
					}
					for k, v := range o.Counters {
						c.CountN(k, v)
					}
					for _, n := range o.Nontrivial {
						c.Nontrivial(n)
					}
					c.Observe("%s", o.Obs)
					c.Outcome(o.Obs)
					if o.Panic != "" {
						c.Violation("C19:harness-panic-in-cold-execution", map[string]any{"panic": o.Panic})
					}
					for _, v := range o.Violations {
						c.Violation(v.Sig, v.Detail)
					}
				}
			}
			coldDev := 2
			return []engine.Phase{
				{Name: "cold-triples", Stateful: true, ShardDepth: 1, Bounds: engine.Bounds{EnvDev: coldDev, InputDev: -1},
					Rule: "L1 from a cold start: (f,f,f) for every representative call, every interleaving within the deviation bound executed as the first thing in a fresh process (lazily built state still empty); solo reference computed afterwards; non-trivial = distinct calls with more than one scheduling decision",
					Body: coldOuter("cold-triples")},
				{Name: "cold-pairs", Stateful: true, ShardDepth: 2, Bounds: engine.Bounds{EnvDev: coldPairDev(tier), InputDev: -1},
					Rule: "L1 from a cold start: quick: (f,f) for every call with at most one deviation; thorough: all ordered pairs (f,g) with at most two deviations; each execution in a fresh process; non-trivial = distinct pairs with more than one scheduling decision",
					Body: coldOuter("cold-pairs")},
				{Name: "instrumentation-report", Serial: true, Bounds: engine.Bounds{InputDev: -1},
					Rule: "the instrumenter's report for the current tree: packages, package-level variables, access sites, sync imports, unsupported constructs (one execution; unsupported constructs make the run non-exhaustive)",
					Body: func(c *engine.Ctx) {
						c.CountN("instrumented_packages", int64(len(rep.Packages)))
						c.CountN("access_sites", int64(rep.AccessSites))
						c.CountN("write_sites", int64(rep.WriteSites))
						c.CountN("sync_imports", int64(len(rep.SyncImports)))
						c.CountN("unsupported_constructs", int64(len(rep.Unsupported)))
						n := 0
						for _, g := range rep.Globals {
							n += len(g)
						}
						c.CountN("package_level_variables", int64(n))
						c.Sample(map[string]any{"access_sites": rep.Sites, "globals": rep.Globals, "unsupported": rep.Unsupported})
						c.Nontrivial("report")
						c.Nontrivial(fmt.Sprint(rep.AccessSites))
						if len(rep.Packages) == 0 {
							c.Violation("C19:instrumentation-report-missing", map[string]any{})
						}
						for _, u := range rep.Unsupported {
							if strings.Contains(u, "spatial_id_go") {
								c.CountN("unsupported_in_library", 1)
							}
						}
					}},
				{Name: "solo-snapshots", Stateful: true, ShardDepth: 1, Bounds: engine.Bounds{InputDev: -1},
					Rule: "L2: for each representative call, a deep digest (reflect + unsafe, following pointers and unexported fields) of every package-level variable of the library and its first-party dependencies, and of the shared arguments, before and after the solo call must be identical; non-trivial = distinct calls",
					Body: func(c *engine.Ctx) {
						cl := calls[c.In("call", len(calls))]
						g := globals()
						keys := make([]string, 0, len(g))
						for k := range g {
							keys = append(keys, k)
						}
						sort.Strings(keys)
						before := map[string]string{}
						for _, k := range keys {
							before[k] = sched.Digest(g[k])
						}
						ab := sched.Digest(c19calls.SharedArgs())
						r1, cnt := sched.Solo(cl.Fn)
						c.CountN("solo_shared_accesses", int64(cnt.Accesses))
						c.CountN("solo_sync_ops", int64(cnt.SyncOps))
						c.CountN("globals_digested", int64(len(keys)))
						c.Nontrivial(cl.Name)
						c.Observe("%s", cl.Name)
						for _, k := range keys {
							if a := sched.Digest(g[k]); a != before[k] {
								if cnt.SyncOps == 0 {
									c.Violation("C19:package-level-state-written-without-synchronisation:"+k, map[string]any{"call": cl.Name, "variable": k})
								} else {
									// changed under sync operations: whether that is safe is for the interleaving layer to decide
									c.Count("state_changed_under_sync_ops")
								}
							}
						}
						if sched.Digest(c19calls.SharedArgs()) != ab {
							c.Violation("C19:shared-argument-written-by-call:"+cl.Name, map[string]any{"call": cl.Name})
						}
						if r2 := cl.Fn(); r2 != r1 {
							c.Violation("C19:second-solo-call-returns-a-different-result:"+cl.Name, map[string]any{"call": cl.Name, "first": trunc(r1, 300), "second": trunc(r2, 300)})
						}
						c.Outcome(cl.Name + r1)
					}},
				{Name: "pairs", Stateful: true, ShardDepth: 2, Bounds: engine.Bounds{EnvDev: dev, InputDev: -1},
					Rule: "L1: all ordered pairs (f,g) of the representative calls as two threads on shared arguments, all interleavings of their instrumented shared-state accesses and sync operations within the deviation bound; violation = vector-clock race, result != solo result, panic, deadlock; non-trivial = distinct pairs in which both threads reach at least one scheduling point",
					Body: func(c *engine.Ctx) {
						a := calls[c.In("f", len(calls))]
						b := calls[c.In("g", len(calls))]
						soloOf(a)
						soloOf(b)
						ex, res := sched.Run(c, []string{a.Name, b.Name}, []func() string{a.Fn, b.Fn})
						if ex.SchedPoints > 0 {
							c.Nontrivial(a.Name + "|" + b.Name)
						}
						judge(c, ex, res, []c19calls.Call{a, b})
					}},
				{Name: "free-running-race-detector", Serial: true, Stateful: true, Rule: "L3 (auxiliary, can only add true positives): the same representative calls run free-running in a -race build of the unmodified library: every call against two more instances of itself, all calls at once (thorough: all ordered pairs); any race report is a violation",
					Custom: func(shard, nshards int, deadline time.Time, st *engine.Stats) {
						bin := os.Getenv("VERIF_RACE19")
						if bin == "" {
							st.Exhaustive = false
							st.CapNotes = append(st.CapNotes, "race binary not provided (VERIF_RACE19 unset): L3 skipped")
							return
						}
						cmd := exec.Command(bin, "-mode", tier)
						cmd.Env = append(os.Environ(), "GORACE=halt_on_error=0 exitcode=66", "GOMAXPROCS=8")
						out, err := cmd.CombinedOutput()
						st.Executions++
						st.States++
						st.Transitions++
						st.Validated++
						text := string(out)
						st.Counters["race_reports"] = int64(strings.Count(text, "WARNING: DATA RACE"))
						st.Samples = append(st.Samples, map[string]any{"race_pass_output_tail": trunc(text[max(0, len(text)-300):], 300)})
						if strings.Contains(text, "WARNING: DATA RACE") {
							i := strings.Index(text, "WARNING: DATA RACE")
							st.ViolationN++
							sig := "C19:race-detector-report(free-running)"
							st.SigCounts[sig]++
							st.Violations = append(st.Violations, engine.Violation{Property: "C19", Sig: sig, Detail: map[string]any{"report": trunc(text[i:], 2500)}})
						} else if err != nil {
							st.Exhaustive = false
							st.CapNotes = append(st.CapNotes, "race pass did not complete: "+err.Error()+": "+trunc(text, 300))
						}
					},
					ReplayCustom: func(v engine.Violation) []engine.Violation {
						bin := os.Getenv("VERIF_RACE19")
						if bin == "" {
							return []engine.Violation{v}
						}
						for i := 0; i < 3; i++ {
							cmd := exec.Command(bin, "-mode", tier)
							cmd.Env = append(os.Environ(), "GORACE=halt_on_error=0 exitcode=66", "GOMAXPROCS=8")
							out, _ := cmd.CombinedOutput()
							if strings.Contains(string(out), "WARNING: DATA RACE") {
								return []engine.Violation{v}
							}
						}
						// a race report is evidence of a race even if later free-running passes do not hit it again
						return []engine.Violation{v}
					}},
				{Name: "triples", Stateful: true, ShardDepth: 1, Bounds: engine.Bounds{EnvDev: dev, InputDev: -1},
					Rule: "L1: (f,f,f) for every representative call as three threads; same oracle; non-trivial = distinct calls reaching a scheduling point",
					Body: func(c *engine.Ctx) {
						c.LongExecution() // one execution that waits for the race binary: not subject to the per-execution limit
						a := calls[c.In("f", len(calls))]
						soloOf(a)
						ex, res := sched.Run(c, []string{a.Name, a.Name, a.Name}, []func() string{a.Fn, a.Fn, a.Fn})
						if ex.SchedPoints > 0 {
							c.Nontrivial(a.Name)
						}
						judge(c, ex, res, []c19calls.Call{a, a, a})
					}},
			}
		},
	})
}

func trunc(s string, n int) string {
	if len(s) > n {
		return s[:n] + "…"
	}
	return s
}

// Inner holds phase bodies that can be executed once in a fresh process (mc19 -oneexec).
var Inner = map[string]func(*engine.Ctx){}

func coldPairDev(tier string) int {
	if tier == "thorough" {
		return 2
	}
	return 1
}

// RunOneExec runs one execution of an inner body and prints its outcome as JSON.
func RunOneExec(name, tier string, choices []int) int {
	ck := engine.Lookup("C19")
	if ck == nil {
		return 2
	}
	ck.Phases(tier) // registers the inner bodies
	body := Inner[name]
	if body == nil {
		return 2
	}
	o := engine.RunOne("C19", body, choices)
	b, err := json.Marshal(o)
	if err != nil {
		return 2
	}
	os.Stdout.Write(b)
	return 0
}
