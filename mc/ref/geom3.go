package ref

import "math"

// V3 is a 3-vector (ECEF metres).
type V3 [3]float64

func (a V3) Sub(b V3) V3      { return V3{a[0] - b[0], a[1] - b[1], a[2] - b[2]} }
func (a V3) Add(b V3) V3      { return V3{a[0] + b[0], a[1] + b[1], a[2] + b[2]} }
func (a V3) Mul(s float64) V3 { return V3{a[0] * s, a[1] * s, a[2] * s} }
func (a V3) Dot(b V3) float64 { return a[0]*b[0] + a[1]*b[1] + a[2]*b[2] }
func (a V3) Cross(b V3) V3 {
	return V3{a[1]*b[2] - a[2]*b[1], a[2]*b[0] - a[0]*b[2], a[0]*b[1] - a[1]*b[0]}
}
func (a V3) Norm() float64 { return math.Sqrt(a.Dot(a)) }

// ECEF converts WGS84 geodetic degrees / metres to geocentric metres.
func ECEF(lonDeg, latDeg, h float64) V3 {
	const a = 6378137.0
	const f = 1 / 298.257223563
	e2 := f * (2 - f)
	lon, lat := lonDeg*math.Pi/180, latDeg*math.Pi/180
	n := a / math.Sqrt(1-e2*math.Sin(lat)*math.Sin(lat))
	return V3{(n + h) * math.Cos(lat) * math.Cos(lon), (n + h) * math.Cos(lat) * math.Sin(lon), (n*(1-e2) + h) * math.Sin(lat)}
}

func clamp01(t float64) float64 { return math.Max(0, math.Min(1, t)) }

// SegSegDist is the distance between segments p1-q1 and p2-q2 (Ericson, RTCD 5.1.9).
func SegSegDist(p1, q1, p2, q2 V3) float64 {
	d1, d2, r := q1.Sub(p1), q2.Sub(p2), p1.Sub(p2)
	a, e, f := d1.Dot(d1), d2.Dot(d2), d2.Dot(r)
	var s, t float64
	const eps = 1e-18
	if a <= eps && e <= eps {
		return r.Norm()
	}
	if a <= eps {
		t = clamp01(f / e)
	} else {
		c := d1.Dot(r)
		if e <= eps {
			s = clamp01(-c / a)
		} else {
			b := d1.Dot(d2)
			den := a*e - b*b
			if den > eps*a*e {
				s = clamp01((b*f - c*e) / den)
			}
			t = (b*s + f) / e
			if t < 0 {
				t = 0
				s = clamp01(-c / a)
			} else if t > 1 {
				t = 1
				s = clamp01((b - c) / a)
			}
		}
	}
	c1 := p1.Add(d1.Mul(s))
	c2 := p2.Add(d2.Mul(t))
	return c1.Sub(c2).Norm()
}

// PointTriDist is the distance from p to triangle abc (Ericson 5.1.5).
func PointTriDist(p, a, b, c V3) float64 {
	ab, ac, ap := b.Sub(a), c.Sub(a), p.Sub(a)
	d1, d2 := ab.Dot(ap), ac.Dot(ap)
	if d1 <= 0 && d2 <= 0 {
		return ap.Norm()
	}
	bp := p.Sub(b)
	d3, d4 := ab.Dot(bp), ac.Dot(bp)
	if d3 >= 0 && d4 <= d3 {
		return bp.Norm()
	}
	vc := d1*d4 - d3*d2
	if vc <= 0 && d1 >= 0 && d3 <= 0 {
		v := d1 / (d1 - d3)
		return p.Sub(a.Add(ab.Mul(v))).Norm()
	}
	cp := p.Sub(c)
	d5, d6 := ab.Dot(cp), ac.Dot(cp)
	if d6 >= 0 && d5 <= d6 {
		return cp.Norm()
	}
	vb := d5*d2 - d1*d6
	if vb <= 0 && d2 >= 0 && d6 <= 0 {
		w := d2 / (d2 - d6)
		return p.Sub(a.Add(ac.Mul(w))).Norm()
	}
	va := d3*d6 - d5*d4
	if va <= 0 && (d4-d3) >= 0 && (d5-d6) >= 0 {
		w := (d4 - d3) / ((d4 - d3) + (d5 - d6))
		return p.Sub(b.Add(c.Sub(b).Mul(w))).Norm()
	}
	den := 1 / (va + vb + vc)
	v, w := vb*den, vc*den
	return p.Sub(a.Add(ab.Mul(v)).Add(ac.Mul(w))).Norm()
}

// segTriIntersects reports whether segment pq crosses triangle abc.
func segTriIntersects(p, q, a, b, c V3) bool {
	n := b.Sub(a).Cross(c.Sub(a))
	dp, dq := p.Sub(a).Dot(n), q.Sub(a).Dot(n)
	if dp*dq > 0 || dp == dq {
		return false
	}
	t := dp / (dp - dq)
	x := p.Add(q.Sub(p).Mul(t))
	// inside test by barycentric signs
	c0 := b.Sub(a).Cross(x.Sub(a)).Dot(n)
	c1 := c.Sub(b).Cross(x.Sub(b)).Dot(n)
	c2 := a.Sub(c).Cross(x.Sub(c)).Dot(n)
	return c0 >= 0 && c1 >= 0 && c2 >= 0
}

// SegTriDist is the distance between segment pq and triangle abc.
func SegTriDist(p, q, a, b, c V3) float64 {
	if segTriIntersects(p, q, a, b, c) {
		return 0
	}
	d := math.Min(PointTriDist(p, a, b, c), PointTriDist(q, a, b, c))
	d = math.Min(d, SegSegDist(p, q, a, b))
	d = math.Min(d, SegSegDist(p, q, b, c))
	d = math.Min(d, SegSegDist(p, q, c, a))
	return d
}

// SegQuadDist is the distance between segment pq and the quadrilateral abcd
// (taken as the two triangles abc, acd; the corners of a voxel footprint are
// coplanar to within the curvature of the cell).
func SegQuadDist(p, q, a, b, c, d V3) float64 {
	return math.Min(SegTriDist(p, q, a, b, c), SegTriDist(p, q, a, c, d))
}
