package ref

import (
	"math"
	"math/big"
)

// R2: geography references. Longitude and altitude indices are exact
// (rational arithmetic on the exact binary value of the float64 inputs);
// the latitude row is evaluated in float64 through a formula different from
// the implementation's (asinh(tan phi), no cancellation in either
// hemisphere) together with an explicit band inside which the row is not
// decided.

// LatLimit is the documented latitude limit.
const LatLimit = 85.0511287798

// LonIndex returns floor(2^h * (lon+180)/360) exactly, with 180 folded to -180.
func LonIndex(lon float64, h int64) int64 {
	if lon == 180 {
		lon = -180
	}
	r := new(big.Rat)
	r.SetFloat64(lon) // exact
	r.Add(r, big.NewRat(180, 1))
	r.Mul(r, new(big.Rat).SetFrac(new(big.Int).Lsh(big.NewInt(1), uint(h)), big.NewInt(360)))
	return floorRat(r)
}

func floorRat(r *big.Rat) int64 {
	q := new(big.Int)
	m := new(big.Int)
	q.DivMod(r.Num(), r.Denom(), m) // Euclidean: m >= 0, so q is the floor for positive denominators
	return q.Int64()
}

// AltIndex returns floor(alt * 2^v / 2^25) exactly.
func AltIndex(alt float64, v int64) int64 {
	r := new(big.Rat)
	r.SetFloat64(alt)
	if v >= 25 {
		r.Mul(r, new(big.Rat).SetInt(new(big.Int).Lsh(big.NewInt(1), uint(v-25))))
	} else {
		r.Quo(r, new(big.Rat).SetInt(new(big.Int).Lsh(big.NewInt(1), uint(25-v))))
	}
	return floorRat(r)
}

// RowBandLog2 is log2 of the half-width of the band (as a fraction of the
// whole map height) inside which the latitude row is not decided: the
// float64 evaluation error of the documented formula reaches about 2^-46 of
// the map height at the southern limit (cancellation in tan + 1/cos).
const RowBandLog2 = -43

// LatRow returns the reference row of latitude lat (degrees) at zoom h and
// whether the position lies inside the undecided band around a row boundary.
func LatRow(lat float64, h int64) (row int64, inBand bool) {
	phi := lat * (math.Pi / 180)
	t := (1 - math.Asinh(math.Tan(phi))/math.Pi) / 2 // fraction of the map height from the north edge
	n := math.Ldexp(1, int(h))
	pos := t * n
	row = int64(math.Floor(pos))
	band := math.Ldexp(1, int(h)+RowBandLog2)
	fr := pos - math.Floor(pos)
	inBand = fr < band || 1-fr < band
	return
}

// RowBoundaryLat returns the latitude (degrees) of the northern edge of row b at zoom h.
func RowBoundaryLat(b, h int64) float64 {
	n := math.Ldexp(1, int(h))
	return math.Atan(math.Sinh(math.Pi*(1-2*float64(b)/n))) * (180 / math.Pi)
}

// LonBoundary returns the western edge of column b at zoom h; it is exactly
// representable (an integer multiple of 360/2^h below 2^44/2^h).
func LonBoundary(b, h int64) float64 {
	return float64(b)*360/math.Ldexp(1, int(h)) - 180
}

// AltBoundary returns the bottom altitude of vertical cell f at zoom v (exact).
func AltBoundary(f, v int64) float64 {
	return math.Ldexp(float64(f), int(25-v))
}
