// Package ref holds the reference models. Nothing in this package calls the
// library under test.
package ref

import (
	"fmt"
	"sort"
	"strconv"
	"strings"
)

// Vox is a voxel of the dyadic grid: horizontal zoom H with indices X,Y and
// vertical zoom V with index F. It denotes the integer box
// [X,X+1)*2^(35-H) x [Y,Y+1)*2^(35-H) x [F,F+1)*2^(35-V).
type Vox struct {
	H, X, Y, V, F int64
}

// Ext formats the extended spatial ID h/x/y/v/f.
func (v Vox) Ext() string {
	return strconv.FormatInt(v.H, 10) + "/" + strconv.FormatInt(v.X, 10) + "/" + strconv.FormatInt(v.Y, 10) + "/" +
		strconv.FormatInt(v.V, 10) + "/" + strconv.FormatInt(v.F, 10)
}

// Spatial formats the spatial ID z/f/x/y (requires H == V).
func (v Vox) Spatial() string {
	return strconv.FormatInt(v.H, 10) + "/" + strconv.FormatInt(v.F, 10) + "/" + strconv.FormatInt(v.X, 10) + "/" + strconv.FormatInt(v.Y, 10)
}

// ParseInt is exactly the language of strconv.ParseInt(s,10,64), written out
// (R6): optional sign, at least one ASCII digit, optional '_' not accepted in
// base 10 explicit mode, value within int64.
func ParseInt(s string) (int64, bool) {
	if s == "" {
		return 0, false
	}
	neg := false
	i := 0
	if s[0] == '+' || s[0] == '-' {
		neg = s[0] == '-'
		i = 1
	}
	if i == len(s) {
		return 0, false
	}
	var u uint64
	const cut = (1<<64-1)/10 + 1
	for ; i < len(s); i++ {
		c := s[i]
		if c < '0' || c > '9' {
			return 0, false
		}
		if u >= cut {
			return 0, false
		}
		u *= 10
		d := uint64(c - '0')
		if u+d < u {
			return 0, false
		}
		u += d
	}
	if !neg {
		if u > 1<<63-1 {
			return 0, false
		}
		return int64(u), true
	}
	if u > 1<<63 {
		return 0, false
	}
	return -int64(u), true
}

// ParseExt parses h/x/y/v/f; ok is false unless there are exactly five
// integer fields.
func ParseExt(s string) (Vox, bool) {
	p := strings.Split(s, "/")
	if len(p) != 5 {
		return Vox{}, false
	}
	var a [5]int64
	for i := range p {
		v, ok := ParseInt(p[i])
		if !ok {
			return Vox{}, false
		}
		a[i] = v
	}
	return Vox{a[0], a[1], a[2], a[3], a[4]}, true
}

// ParseSpatial parses z/f/x/y.
func ParseSpatial(s string) (Vox, bool) {
	p := strings.Split(s, "/")
	if len(p) != 4 {
		return Vox{}, false
	}
	var a [4]int64
	for i := range p {
		v, ok := ParseInt(p[i])
		if !ok {
			return Vox{}, false
		}
		a[i] = v
	}
	return Vox{a[0], a[2], a[3], a[0], a[1]}, true
}

// MustExt parses or panics (harness-side convenience for IDs the harness built).
func MustExt(s string) Vox {
	v, ok := ParseExt(s)
	if !ok {
		panic("ref: bad extended id " + s)
	}
	return v
}

// Valid reports whether the voxel exists: zooms 0..35, 0<=x,y<2^h, -2^v<=f<2^v.
func (v Vox) Valid() bool {
	if v.H < 0 || v.H > 35 || v.V < 0 || v.V > 35 {
		return false
	}
	n := int64(1) << uint(v.H)
	m := int64(1) << uint(v.V)
	return v.X >= 0 && v.X < n && v.Y >= 0 && v.Y < n && v.F >= -m && v.F < m
}

// FloorShift returns floor(i * 2^s) for either sign of i and s.
func FloorShift(i, s int64) int64 {
	if s >= 0 {
		return i << uint(s)
	}
	return i >> uint(-s) // arithmetic shift on signed = floor
}

// ZoomAxis1 returns the inclusive index range at zoom zout of cell i at zoom
// zin on one axis (ancestor when coarsening, descendants when refining).
func ZoomAxis1(zin, i, zout int64) (lo, hi int64) {
	d := zout - zin
	if d >= 0 {
		lo = i << uint(d)
		return lo, lo + (int64(1) << uint(d)) - 1
	}
	a := i >> uint(-d)
	return a, a
}

// ChangeZoom is the R1 zoom change of one voxel: all voxels at (h,v) that
// intersect it.
func (v Vox) ChangeZoom(h, vz int64) []Vox {
	xlo, xhi := ZoomAxis1(v.H, v.X, h)
	ylo, yhi := ZoomAxis1(v.H, v.Y, h)
	flo, fhi := ZoomAxis1(v.V, v.F, vz)
	var r []Vox
	for y := ylo; y <= yhi; y++ {
		for x := xlo; x <= xhi; x++ {
			for f := flo; f <= fhi; f++ {
				r = append(r, Vox{h, x, y, vz, f})
			}
		}
	}
	return r
}

// ChangeZoomCount predicts the number of voxels ChangeZoom returns.
func (v Vox) ChangeZoomCount(h, vz int64) int64 {
	sh := int64(0)
	if h > v.H {
		sh += 2 * (h - v.H)
	}
	if vz > v.V {
		sh += vz - v.V
	}
	if sh > 60 {
		return 1 << 60 // saturate: far beyond every budget
	}
	return int64(1) << uint(sh)
}

// Set is a set of voxels keyed by extended ID.
type Set map[Vox]struct{}

// NewSet builds a set.
func NewSet(vs ...Vox) Set {
	s := Set{}
	for _, v := range vs {
		s[v] = struct{}{}
	}
	return s
}

// Add inserts.
func (s Set) Add(vs ...Vox) {
	for _, v := range vs {
		s[v] = struct{}{}
	}
}

// Sorted returns the members in canonical order.
func (s Set) Sorted() []Vox {
	r := make([]Vox, 0, len(s))
	for v := range s {
		r = append(r, v)
	}
	SortVox(r)
	return r
}

// Less is the canonical voxel order.
func Less(a, b Vox) bool {
	if a.H != b.H {
		return a.H < b.H
	}
	if a.V != b.V {
		return a.V < b.V
	}
	if a.X != b.X {
		return a.X < b.X
	}
	if a.Y != b.Y {
		return a.Y < b.Y
	}
	return a.F < b.F
}

// SortVox sorts in canonical order.
func SortVox(r []Vox) { sort.Slice(r, func(i, j int) bool { return Less(r[i], r[j]) }) }

// Exts formats a list.
func Exts(vs []Vox) []string {
	r := make([]string, len(vs))
	for i, v := range vs {
		r[i] = v.Ext()
	}
	return r
}

// ChangeZoomSet is the R1 zoom change of a list (set semantics).
func ChangeZoomSet(in []Vox, h, vz int64) Set {
	out := Set{}
	for _, v := range in {
		out.Add(v.ChangeZoom(h, vz)...)
	}
	return out
}

// AncestorOrEqualAxis reports whether cell (za,ia) contains cell (zb,ib) on one axis.
func ancestorOrEqualAxis(za, ia, zb, ib int64) bool {
	if za > zb {
		return false
	}
	return ib>>uint(zb-za) == ia
}

// Overlap reports whether two voxels share interior volume: nested or equal
// on the horizontal axes and nested or equal on the vertical axis.
func Overlap(a, b Vox) bool {
	hor := false
	if a.H <= b.H {
		hor = ancestorOrEqualAxis(a.H, a.X, b.H, b.X) && ancestorOrEqualAxis(a.H, a.Y, b.H, b.Y)
	} else {
		hor = ancestorOrEqualAxis(b.H, b.X, a.H, a.X) && ancestorOrEqualAxis(b.H, b.Y, a.H, a.Y)
	}
	if !hor {
		return false
	}
	if a.V <= b.V {
		return ancestorOrEqualAxis(a.V, a.F, b.V, b.F)
	}
	return ancestorOrEqualAxis(b.V, b.F, a.V, a.F)
}

// Contains reports whether a contains b entirely.
func Contains(a, b Vox) bool {
	return a.H <= b.H && a.V <= b.V && ancestorOrEqualAxis(a.H, a.X, b.H, b.X) &&
		ancestorOrEqualAxis(a.H, a.Y, b.H, b.Y) && ancestorOrEqualAxis(a.V, a.F, b.V, b.F)
}

// Cells refines a list of voxels to unit cells at (h,v) (which must be at
// least as fine as every voxel) and returns the set of cells covered. This is
// the region of the list, computed by plain enumeration.
func Cells(in []Vox, h, vz int64) (Set, error) {
	out := Set{}
	for _, v := range in {
		if v.H > h || v.V > vz {
			return nil, fmt.Errorf("ref.Cells: %s finer than (%d,%d)", v.Ext(), h, vz)
		}
		out.Add(v.ChangeZoom(h, vz)...)
	}
	return out, nil
}

// MaxZooms returns the finest zooms present.
func MaxZooms(in []Vox) (h, v int64) {
	for _, x := range in {
		if x.H > h {
			h = x.H
		}
		if x.V > v {
			v = x.V
		}
	}
	return
}

// SameRegion reports whether two lists cover the same region.
func SameRegion(a, b []Vox) bool {
	h1, v1 := MaxZooms(a)
	h2, v2 := MaxZooms(b)
	if h2 > h1 {
		h1 = h2
	}
	if v2 > v1 {
		v1 = v2
	}
	ca, _ := Cells(a, h1, v1)
	cb, _ := Cells(b, h1, v1)
	if len(ca) != len(cb) {
		return false
	}
	for k := range ca {
		if _, ok := cb[k]; !ok {
			return false
		}
	}
	return true
}

// Merge is the R1 merge: inputs coarser than the target on either axis are
// kept; the others are grouped by their ancestor at (h,v); a group whose
// members completely fill the ancestor is replaced by it, any other group is
// kept unchanged.
func Merge(in []Vox, h, vz int64) Set {
	out := Set{}
	groups := map[Vox][]Vox{}
	for _, x := range in {
		if x.H >= h && x.V >= vz {
			a := Vox{h, x.X >> uint(x.H-h), x.Y >> uint(x.H-h), vz, x.F >> uint(x.V-vz)}
			groups[a] = append(groups[a], x)
		} else {
			out.Add(x)
		}
	}
	for a, g := range groups {
		mh, mv := MaxZooms(g)
		cells, _ := Cells(g, mh, mv)
		if int64(len(cells)) == a.ChangeZoomCount(mh, mv) {
			out.Add(a)
		} else {
			out.Add(g...)
		}
	}
	return out
}

// Shift is modular translation: x,y mod 2^h, f unbounded.
func (v Vox) Shift(dx, dy, df int64) Vox {
	n := int64(1) << uint(v.H)
	mod := func(a int64) int64 {
		a %= n
		if a < 0 {
			a += n
		}
		return a
	}
	return Vox{v.H, mod(mod(v.X) + mod(dx)), mod(mod(v.Y) + mod(dy)), v.V, v.F + df}
}

// Quadkey interleaves the bits of y and x, most significant level first.
func Quadkey(z, x, y int64) int64 {
	var k int64
	for i := z - 1; i >= 0; i-- {
		k = k<<2 | ((y>>uint(i))&1)<<1 | (x>>uint(i))&1
	}
	return k
}

// FromQuadkey is the inverse of Quadkey.
func FromQuadkey(z, k int64) (x, y int64) {
	for i := z - 1; i >= 0; i-- {
		d := (k >> uint(2*i)) & 3
		x = x<<1 | d&1
		y = y<<1 | d>>1
	}
	return
}
