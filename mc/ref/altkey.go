package ref

import "math/big"

// R3: altitude-key interval arithmetic, exact, in units of 2^-35 m.
//
// Spatial-ID scale: cell f at zoom z is [f, f+1) * 2^(25-z) m.
// Key scale (zoom k, base exponent E, base offset O): key cell height is
// 2^(E-k) m and altitude 0 m is index O at zoom E, so key c at zoom k is
// [c*2^(E-k) - O, (c+1)*2^(E-k) - O) m.

const unitShift = 35

func bi(v int64) *big.Int { return big.NewInt(v) }

func shl(v *big.Int, n int64) *big.Int { return new(big.Int).Lsh(v, uint(n)) }

// floorDivPow2 returns floor(v / 2^n) for n >= 0 (big.Int.Rsh is arithmetic).
func floorDivPow2(v *big.Int, n int64) *big.Int { return new(big.Int).Rsh(v, uint(n)) }

// ceilDivPow2 returns ceil(v / 2^n).
func ceilDivPow2(v *big.Int, n int64) *big.Int {
	t := new(big.Int).Neg(v)
	t.Rsh(t, uint(n))
	return t.Neg(t)
}

// Range is an inclusive integer range, big because intermediate values
// exceed 64 bits at the extremes of the domain.
type Range struct{ Lo, Hi *big.Int }

// Within reports lo <= r.Lo and r.Hi <= hi.
func (r Range) Within(lo, hi *big.Int) bool { return r.Lo.Cmp(lo) >= 0 && r.Hi.Cmp(hi) <= 0 }

// AltKeyResult holds the exact and metre-widened covering ranges.
type AltKeyResult struct {
	SourceExists bool
	Exact        Range
	Widened      Range
	ExactFits    bool // exact range inside the target index range
	WidenedFits  bool
}

func covering(a, b *big.Int, cellShift int64) Range {
	lo := floorDivPow2(a, cellShift)
	hi := ceilDivPow2(b, cellShift)
	hi.Sub(hi, bi(1))
	return Range{lo, hi}
}

func widen(a, b *big.Int) (*big.Int, *big.Int) {
	wa := shl(floorDivPow2(a, unitShift), unitShift)
	wb := shl(ceilDivPow2(b, unitShift), unitShift)
	return wa, wb
}

// ZToAltKey is the reference for converting vertical index f at zoom z to
// keys at zoom k with base exponent e and base offset o.
func ZToAltKey(f, z, k, e, o int64) AltKeyResult {
	var r AltKeyResult
	n := int64(1) << uint(z)
	r.SourceExists = f >= -n && f < n
	a := shl(bi(f), 25-z+unitShift)
	b := shl(bi(f+1), 25-z+unitShift)
	off := shl(bi(o), unitShift)
	cell := e - k + unitShift
	r.Exact = covering(new(big.Int).Add(a, off), new(big.Int).Add(b, off), cell)
	wa, wb := widen(a, b)
	r.Widened = covering(wa.Add(wa, off), wb.Add(wb, off), cell)
	lo, hi := bi(0), bi((int64(1)<<uint(k))-1)
	r.ExactFits = r.Exact.Within(lo, hi)
	r.WidenedFits = r.Widened.Within(lo, hi)
	return r
}

// AltKeyToZ is the reference for converting key c at zoom k (base exponent e,
// base offset o) to vertical indices at zoom z.
func AltKeyToZ(c, k, z, e, o int64) AltKeyResult {
	var r AltKeyResult
	r.SourceExists = c >= 0 && c < int64(1)<<uint(k)
	off := shl(bi(o), unitShift)
	a := shl(bi(c), e-k+unitShift)
	a.Sub(a, off)
	b := shl(bi(c+1), e-k+unitShift)
	b.Sub(b, off)
	cell := 25 - z + unitShift
	r.Exact = covering(a, b, cell)
	wa, wb := widen(a, b)
	r.Widened = covering(wa, wb, cell)
	n := int64(1) << uint(z)
	lo, hi := bi(-n), bi(n-1)
	r.ExactFits = r.Exact.Within(lo, hi)
	r.WidenedFits = r.Widened.Within(lo, hi)
	return r
}
