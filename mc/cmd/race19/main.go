// Command race19 is the auxiliary L3 pass of C19: the representative calls
// run free-running (no cooperative scheduler) on shared arguments in a binary
// built with -race from the unmodified library. A data race makes the race
// detector print a report and the process exit with status 66.
package main

import (
	"flag"
	"fmt"
	"sync"

	"verif/mc/c19calls"
)

func together(fns []func() string, rounds int) {
	for r := 0; r < rounds; r++ {
		var wg sync.WaitGroup
		start := make(chan struct{})
		for _, f := range fns {
			wg.Add(1)
			go func(f func() string) {
				defer wg.Done()
				<-start
				f()
			}(f)
		}
		close(start)
		wg.Wait()
	}
}

func main() {
	mode := flag.String("mode", "quick", "quick|thorough")
	flag.Parse()
	calls := c19calls.Calls()
	n := 0
	// every call against two more instances of itself
	for _, c := range calls {
		together([]func() string{c.Fn, c.Fn, c.Fn}, 3)
		n += 3
	}
	// all calls at once
	var all []func() string
	for _, c := range calls {
		all = append(all, c.Fn)
	}
	together(all, 5)
	n += 5
	if *mode == "thorough" {
		for _, a := range calls {
			for _, b := range calls {
				together([]func() string{a.Fn, b.Fn}, 2)
				n += 2
			}
		}
		together(append(all, all...), 10)
	}
	fmt.Printf("race19: %d concurrent rounds over %d calls completed\n", n, len(calls))
}
