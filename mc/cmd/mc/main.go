// Command mc is the model checker: coordinator, worker and replayer.
package main

import (
	"flag"
	"fmt"
	"os"
	"runtime"

	"verif/mc/engine"
	_ "verif/mc/props"
)

func main() {
	prop := flag.String("prop", "", "property id")
	tier := flag.String("tier", "quick", "quick|thorough")
	shard := flag.Int("shard", -1, "worker shard (internal)")
	nshards := flag.Int("nshards", 0, "number of shards (internal)")
	out := flag.String("out", "", "worker output (internal)")
	replay := flag.String("replay", "", "replay file")
	workers := flag.Int("workers", 0, "worker processes (default: cores)")
	list := flag.Bool("list", false, "list registered properties")
	lone := flag.String("lone", "", "run one execution of this phase alone (internal)")
	bfs := flag.Bool("bfs", false, "-lone: the execution is a transition of an explicit-state search (internal)")
	bfsInit := flag.String("bfs-init", "", "-lone -bfs: initial state (internal)")
	choices := flag.String("choices", "", "choice prefix for -lone")
	flag.Parse()
	if t := os.Getenv("VERIF_TIER"); t != "" && *shard < 0 {
		_ = t // the tier given on the command line wins; VERIF_TIER is informational
	}
	if *list {
		for _, id := range engine.IDs() {
			fmt.Println(id)
		}
		return
	}
	if *lone != "" {
		os.Exit(engine.RunLone(*prop, *tier, *lone, *choices, *bfsInit, *bfs))
	}
	if *replay != "" {
		os.Exit(engine.RunReplay(*replay))
	}
	if *shard >= 0 {
		if err := engine.RunWorker(*prop, *tier, *shard, *nshards, *out); err != nil {
			fmt.Fprintln(os.Stderr, err)
			os.Exit(2)
		}
		return
	}
	n := *workers
	if n <= 0 {
		n = runtime.NumCPU()
		if n > 16 {
			n = 16
		}
	}
	os.Exit(engine.RunCheck(*prop, *tier, n))
}
