// Command mc19 is the model checker binary for C19; it is built with the
// instrumentation overlay (see check.sh).
package main

import (
	"flag"
	"fmt"
	"os"
	"runtime"

	"strconv"
	"strings"

	"verif/mc/c19"
	"verif/mc/engine"
)

func main() {
	prop := flag.String("prop", "C19", "property id")
	tier := flag.String("tier", "quick", "quick|thorough")
	shard := flag.Int("shard", -1, "worker shard (internal)")
	nshards := flag.Int("nshards", 0, "number of shards (internal)")
	out := flag.String("out", "", "worker output (internal)")
	replay := flag.String("replay", "", "replay file")
	oneexec := flag.String("oneexec", "", "run one execution of an inner phase body (internal)")
	choices := flag.String("choices", "", "choice prefix for -oneexec / -lone")
	lone := flag.String("lone", "", "run one execution of this phase alone (internal)")
	bfs := flag.Bool("bfs", false, "-lone: the execution is a transition of an explicit-state search (internal)")
	bfsInit := flag.String("bfs-init", "", "-lone -bfs: initial state (internal)")
	flag.Parse()
	if *oneexec != "" {
		var ch []int
		for _, f := range strings.Split(*choices, ",") {
			if f != "" {
				v, _ := strconv.Atoi(f)
				ch = append(ch, v)
			}
		}
		os.Exit(c19.RunOneExec(*oneexec, *tier, ch))
	}
	if *lone != "" {
		os.Exit(engine.RunLone(*prop, *tier, *lone, *choices, *bfsInit, *bfs))
	}
	if *replay != "" {
		os.Exit(engine.RunReplay(*replay))
	}
	if *shard >= 0 {
		if err := engine.RunWorker(*prop, *tier, *shard, *nshards, *out); err != nil {
			fmt.Fprintln(os.Stderr, err)
			os.Exit(2)
		}
		return
	}
	n := runtime.NumCPU()
	if n > 16 {
		n = 16
	}
	os.Exit(engine.RunCheck(*prop, *tier, n))
}
