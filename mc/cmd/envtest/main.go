package main

import (
	"fmt"

	"verif/mc/engine"
)

func main() {
	outs := map[string]int{}
	ex := engine.NewExplorer("T", func(c *engine.Ctx) {
		m := map[string]int{"a": 1, "b": 2, "c": 3, "d": 4, "e": 5}
		c.EnvMaps(true)
		s := ""
		for k := range m {
			s += k
		}
		m2 := map[int]int{}
		for i := 0; i < 20; i++ {
			m2[i] = i
		}
		t := ""
		for k := range m2 {
			t += fmt.Sprint(k, ",")
			break
		}
		c.EnvMaps(false)
		outs[s+" "+t]++
	}, engine.Bounds{EnvDev: 1, InputDev: -1}, 0, 1, 1)
	ex.Explore()
	fmt.Println(ex.Stats.Executions, ex.Stats.EnvPoints, len(outs))
	for k, v := range outs {
		fmt.Println(k, v)
	}
}
