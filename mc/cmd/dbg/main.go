package main

func main() {}
