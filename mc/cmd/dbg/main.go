package main

import (
	"fmt"
	"math"

	"github.com/trajectoryjp/spatial_id_go/v4/common/object"
	"github.com/trajectoryjp/spatial_id_go/v4/shape"
)

func main() {
	lons := []float64{-180, -179.9999999999, -90.5, -1e-9, 0, 1e-9, 45.123456789, 139.7, 179.9999999999, 180}
	lats := []float64{-85.0511287798, -85.05, -60.25, -1e-9, 0, 1e-9, 35.6, 66.5, 85.05, 85.0511287798}
	for _, alt := range []float64{0, -1e-300, 12.345} {
		worstF, worstB := 0.0, 0.0
		for _, lon := range lons {
			for _, lat := range lats {
				p, _ := object.NewPoint(lon, lat, alt)
				pr, _ := shape.ConvertPointListToProjectedPointList([]*object.Point{p}, 3857)
				wx := 6378137.0 * p.Lon() * math.Pi / 180
				wy := 6378137.0 * math.Asinh(math.Tan(p.Lat()*math.Pi/180))
				worstF = math.Max(worstF, math.Max(math.Abs(pr[0].X-wx), math.Abs(pr[0].Y-wy)))
				back, _ := shape.ConvertProjectedPointListToPointList(pr, 3857)
				db := math.Abs(back[0].Lat() - p.Lat())
				if db > worstB {
					worstB = db
					fmt.Println("   ", alt, lon, lat, "back", back[0].Lat(), back[0].Alt())
				}
			}
		}
		fmt.Println(alt, worstF, worstB)
	}
}
