package sched

import (
	"fmt"
	"hash/fnv"
	"math"
	"reflect"
	"sort"
	"strings"
	"unsafe"
)

// Digest returns a deep, deterministic digest of the value v points to
// (following pointers, including unexported fields), used to detect writes
// to package-level state and to shared arguments.
func Digest(v any) string {
	d := &digester{seen: map[uintptr]bool{}}
	d.walk(reflect.ValueOf(v), 0)
	h := fnv.New64a()
	h.Write([]byte(d.sb.String()))
	return fmt.Sprintf("%x/%d", h.Sum64(), d.nodes)
}

type digester struct {
	sb    strings.Builder
	seen  map[uintptr]bool
	nodes int
}

func syncType(t reflect.Type) bool {
	p := t.PkgPath()
	return p == "sync" || p == "sync/atomic" || strings.HasSuffix(p, "/vsync") || strings.HasSuffix(p, "/vatomic")
}

func (d *digester) walk(v reflect.Value, depth int) {
	d.nodes++
	if depth > 60 || d.nodes > 2_000_000 {
		d.sb.WriteString("<cut>")
		return
	}
	if !v.IsValid() {
		d.sb.WriteString("<nil>")
		return
	}
	if syncType(v.Type()) {
		d.sb.WriteString("<sync>")
		return
	}
	switch v.Kind() {
	case reflect.Bool:
		fmt.Fprintf(&d.sb, "b%v;", v.Bool())
	case reflect.Int, reflect.Int8, reflect.Int16, reflect.Int32, reflect.Int64:
		fmt.Fprintf(&d.sb, "i%d;", v.Int())
	case reflect.Uint, reflect.Uint8, reflect.Uint16, reflect.Uint32, reflect.Uint64, reflect.Uintptr:
		fmt.Fprintf(&d.sb, "u%d;", v.Uint())
	case reflect.Float32, reflect.Float64:
		fmt.Fprintf(&d.sb, "f%x;", math.Float64bits(v.Float()))
	case reflect.Complex64, reflect.Complex128:
		fmt.Fprintf(&d.sb, "c%v;", v.Complex())
	case reflect.String:
		fmt.Fprintf(&d.sb, "s%q;", v.String())
	case reflect.Ptr:
		if v.IsNil() {
			d.sb.WriteString("p0;")
			return
		}
		a := v.Pointer()
		if d.seen[a] {
			d.sb.WriteString("p^;")
			return
		}
		d.seen[a] = true
		d.sb.WriteString("p{")
		d.walk(v.Elem(), depth+1)
		d.sb.WriteString("}")
	case reflect.Interface:
		if v.IsNil() {
			d.sb.WriteString("n;")
			return
		}
		d.sb.WriteString("I" + v.Elem().Type().String() + "{")
		d.walk(v.Elem(), depth+1)
		d.sb.WriteString("}")
	case reflect.Slice:
		if v.IsNil() {
			d.sb.WriteString("S0;")
			return
		}
		fmt.Fprintf(&d.sb, "S%d[", v.Len())
		for i := 0; i < v.Len(); i++ {
			d.walk(v.Index(i), depth+1)
		}
		d.sb.WriteString("]")
	case reflect.Array:
		d.sb.WriteString("A[")
		for i := 0; i < v.Len(); i++ {
			d.walk(v.Index(i), depth+1)
		}
		d.sb.WriteString("]")
	case reflect.Map:
		if v.IsNil() {
			d.sb.WriteString("M0;")
			return
		}
		var ents []string
		it := v.MapRange()
		for it.Next() {
			sub := &digester{seen: d.seen}
			sub.walk(it.Key(), depth+1)
			sub.sb.WriteString("=>")
			sub.walk(it.Value(), depth+1)
			d.nodes += sub.nodes
			ents = append(ents, sub.sb.String())
		}
		sort.Strings(ents)
		fmt.Fprintf(&d.sb, "M%d{%s}", len(ents), strings.Join(ents, ","))
	case reflect.Struct:
		if !v.CanAddr() {
			tmp := reflect.New(v.Type()).Elem()
			if v.CanInterface() {
				tmp.Set(v)
				v = tmp
			}
		}
		d.sb.WriteString("T{")
		for i := 0; i < v.NumField(); i++ {
			f := v.Field(i)
			if !f.CanInterface() && f.CanAddr() {
				f = reflect.NewAt(f.Type(), unsafe.Pointer(f.UnsafeAddr())).Elem()
			} else if !f.CanInterface() {
				d.sb.WriteString("<ro>;")
				continue
			}
			d.walk(f, depth+1)
		}
		d.sb.WriteString("}")
	case reflect.Func:
		if v.IsNil() {
			d.sb.WriteString("F0;")
		} else {
			d.sb.WriteString("F;")
		}
	case reflect.Chan, reflect.UnsafePointer:
		d.sb.WriteString("X;")
	default:
		d.sb.WriteString("?;")
	}
}
