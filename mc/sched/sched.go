// Package sched is E4: a cooperative scheduler that runs 2-3 real goroutines
// one at a time, makes every instrumented shared-state access and sync
// operation a scheduling point, decides data races with vector clocks and lets
// the E1 explorer enumerate the interleavings (Sched choices).
//
// It compiles only in builds that carry the instrumentation overlay (it
// imports the virtual package verifrt).
package sched

import (
	"fmt"
	"sort"
	"unsafe"

	"github.com/trajectoryjp/spatial_id_go/v4/verifrt"

	"verif/mc/engine"
)

type thread struct {
	id      int
	name    string
	fn      func() string
	res     string
	panicV  any
	done    bool
	resume  chan struct{}
	vc      []uint32
	blocked func() bool
}

type locState struct {
	wTid  int
	wClk  uint32
	wName string
	reads map[int]uint32
}

type lockState struct {
	holder  *thread
	readers map[*thread]bool
	vc      []uint32
}

type onceState struct {
	state  int // 0 new, 1 running, 2 done
	runner *thread
	vc     []uint32
}

// Hot is the set of package-level variables that have at least one write
// site (assignment, inc/dec, address taken, delete/clear/copy target) in the
// instrumented program; only their accesses can conflict. It is filled from
// the instrumenter's report before exploration starts.
var Hot = map[string]bool{}

// Counter is a Scheduler that only counts (used around solo calls).
type Counter struct{ Accesses, Writes, SyncOps int }

func (k *Counter) Access(id string, w bool) {
	k.Accesses++
	if w {
		k.Writes++
	}
}
func (k *Counter) Lock(unsafe.Pointer, int)      { k.SyncOps++ }
func (k *Counter) Unlock(unsafe.Pointer, int)    { k.SyncOps++ }
func (k *Counter) OnceEnter(unsafe.Pointer) bool { k.SyncOps++; return true }
func (k *Counter) OnceDone(unsafe.Pointer)       {}
func (k *Counter) Atomic(unsafe.Pointer, bool)   { k.SyncOps++ }
func (k *Counter) Unsupported(string)            {}

// Solo runs f with a counting scheduler installed.
func Solo(f func() string) (string, *Counter) {
	k := &Counter{}
	verifrt.S = k
	defer func() { verifrt.S = nil }()
	return f(), k
}

// Race is an unordered conflicting pair of accesses.
type Race struct {
	Loc    string
	First  string
	Second string
}

// Event is one scheduled step.
type Event struct {
	Thread int
	Op     string
}

// Exec is one explored execution.
type Exec struct {
	c           *engine.Ctx
	threads     []*thread
	cur         *thread
	yield       chan struct{}
	locs        map[string]*locState
	locks       map[unsafe.Pointer]*lockState
	atomics     map[unsafe.Pointer][]uint32
	onces       map[unsafe.Pointer]*onceState
	Races       []Race
	Unsupp      []string
	Events      []Event
	SyncOps     int
	Accesses    int
	Deadlock    bool
	SchedPoints int
	ColdReads   int
}

// Result of one thread.
type Result struct {
	Name  string
	Value string
	Panic any
	Done  bool
}

func join(a, b []uint32) {
	for i := range a {
		if b[i] > a[i] {
			a[i] = b[i]
		}
	}
}

// Run executes the thread bodies under the scheduler; scheduling choices come from c.
func Run(c *engine.Ctx, names []string, fns []func() string) (*Exec, []Result) {
	e := &Exec{c: c, yield: make(chan struct{}), locs: map[string]*locState{}, locks: map[unsafe.Pointer]*lockState{},
		atomics: map[unsafe.Pointer][]uint32{}, onces: map[unsafe.Pointer]*onceState{}}
	n := len(fns)
	for i := range fns {
		t := &thread{id: i, name: names[i], fn: fns[i], resume: make(chan struct{}), vc: make([]uint32, n)}
		t.vc[i] = 1
		e.threads = append(e.threads, t)
	}
	verifrt.S = e
	defer func() { verifrt.S = nil }()
	for _, t := range e.threads {
		go func(t *thread) {
			<-t.resume
			func() {
				defer func() {
					if r := recover(); r != nil {
						t.panicV = r
					}
				}()
				t.res = t.fn()
			}()
			t.done = true
			e.yield <- struct{}{}
		}(t)
	}
	for {
		var enabled []*thread
		alldone := true
		for _, t := range e.threads {
			if t.done {
				continue
			}
			alldone = false
			if t.blocked == nil || !t.blocked() {
				enabled = append(enabled, t)
			}
		}
		if alldone {
			break
		}
		if len(enabled) == 0 {
			e.Deadlock = true
			break
		}
		order := enabled
		if e.cur != nil {
			for i, t := range enabled {
				if t == e.cur {
					order = append([]*thread{t}, append(append([]*thread{}, enabled[:i]...), enabled[i+1:]...)...)
				}
			}
		}
		idx := 0
		if len(order) > 1 {
			idx = c.Choose(engine.Sched, "sched", len(order))
			e.SchedPoints++
		}
		t := order[idx]
		e.cur = t
		t.blocked = nil
		t.resume <- struct{}{}
		<-e.yield
	}
	res := make([]Result, n)
	for i, t := range e.threads {
		res[i] = Result{Name: t.name, Value: t.res, Panic: t.panicV, Done: t.done}
	}
	return e, res
}

// point yields to the scheduler and returns when this thread is resumed.
func (e *Exec) point(t *thread) {
	e.yield <- struct{}{}
	<-t.resume
}

func (e *Exec) me() *thread { return e.cur }

// Access implements verifrt.Scheduler.
func (e *Exec) Access(id string, write bool) {
	t := e.me()
	if t == nil {
		return
	}
	e.Accesses++
	if !Hot[id] {
		// no statement of the instrumented program ever writes this variable: the read is
		// independent of every other operation, so it is neither a scheduling point nor a race candidate
		e.ColdReads++
		return
	}
	e.point(t)
	op := "R "
	if write {
		op = "W "
	}
	e.Events = append(e.Events, Event{t.id, op + id})
	l := e.locs[id]
	if l == nil {
		l = &locState{wTid: -1, reads: map[int]uint32{}}
		e.locs[id] = l
	}
	here := fmt.Sprintf("%s by thread %d (%s)", op+id, t.id, t.name)
	if l.wTid >= 0 && l.wTid != t.id && l.wClk > t.vc[l.wTid] {
		e.Races = append(e.Races, Race{id, l.wName, here})
	}
	if write {
		tids := make([]int, 0, len(l.reads))
		for tid := range l.reads {
			tids = append(tids, tid)
		}
		sort.Ints(tids)
		for _, tid := range tids {
			if tid != t.id && l.reads[tid] > t.vc[tid] {
				e.Races = append(e.Races, Race{id, fmt.Sprintf("R %s by thread %d (%s)", id, tid, e.threads[tid].name), here})
			}
		}
		l.wTid, l.wClk, l.wName = t.id, t.vc[t.id], here
		l.reads = map[int]uint32{}
	} else {
		l.reads[t.id] = t.vc[t.id]
	}
	t.vc[t.id]++
}

func (e *Exec) lockOf(addr unsafe.Pointer) *lockState {
	l := e.locks[addr]
	if l == nil {
		l = &lockState{readers: map[*thread]bool{}, vc: make([]uint32, len(e.threads))}
		e.locks[addr] = l
	}
	return l
}

// Lock implements verifrt.Scheduler.
func (e *Exec) Lock(addr unsafe.Pointer, kind int) {
	t := e.me()
	if t == nil {
		return
	}
	l := e.lockOf(addr)
	free := func() bool {
		if kind == 0 {
			return l.holder == nil && len(l.readers) == 0
		}
		return l.holder == nil
	}
	t.blocked = func() bool { return !free() }
	e.point(t)
	for !free() { // defensive: the scheduler only resumes enabled threads
		t.blocked = func() bool { return !free() }
		e.point(t)
	}
	e.SyncOps++
	e.Events = append(e.Events, Event{t.id, fmt.Sprintf("lock(%d)", kind)})
	if kind == 0 {
		l.holder = t
	} else {
		l.readers[t] = true
	}
	join(t.vc, l.vc)
	t.vc[t.id]++
}

// Unlock implements verifrt.Scheduler.
func (e *Exec) Unlock(addr unsafe.Pointer, kind int) {
	t := e.me()
	if t == nil {
		return
	}
	l := e.lockOf(addr)
	e.SyncOps++
	e.Events = append(e.Events, Event{t.id, fmt.Sprintf("unlock(%d)", kind)})
	if kind == 0 {
		l.holder = nil
	} else {
		delete(l.readers, t)
	}
	join(l.vc, t.vc)
	t.vc[t.id]++
}

// OnceEnter implements verifrt.Scheduler.
func (e *Exec) OnceEnter(addr unsafe.Pointer) bool {
	t := e.me()
	if t == nil {
		return true
	}
	o := e.onces[addr]
	if o == nil {
		o = &onceState{vc: make([]uint32, len(e.threads))}
		e.onces[addr] = o
	}
	t.blocked = func() bool { return o.state == 1 && o.runner != t }
	e.point(t)
	e.SyncOps++
	e.Events = append(e.Events, Event{t.id, "once"})
	if o.state == 0 {
		o.state, o.runner = 1, t
		return true
	}
	join(t.vc, o.vc)
	t.vc[t.id]++
	return false
}

// OnceDone implements verifrt.Scheduler.
func (e *Exec) OnceDone(addr unsafe.Pointer) {
	t := e.me()
	if t == nil {
		return
	}
	o := e.onces[addr]
	o.state = 2
	join(o.vc, t.vc)
	t.vc[t.id]++
}

// Atomic implements verifrt.Scheduler (every atomic operation is acquire-release).
func (e *Exec) Atomic(addr unsafe.Pointer, write bool) {
	t := e.me()
	if t == nil {
		return
	}
	e.point(t)
	e.SyncOps++
	e.Events = append(e.Events, Event{t.id, "atomic"})
	a := e.atomics[addr]
	if a == nil {
		a = make([]uint32, len(e.threads))
		e.atomics[addr] = a
	}
	join(t.vc, a)
	join(a, t.vc)
	t.vc[t.id]++
}

// Unsupported implements verifrt.Scheduler.
func (e *Exec) Unsupported(what string) {
	e.Unsupp = append(e.Unsupp, what)
}
