package engine

import (
	"context"
	"encoding/json"
	"fmt"
	"os"
	"os/exec"
	"strconv"
	"strings"
	"sync/atomic"
	"syscall"
	"time"
)

// A worker keeps, in a small memory-mapped file next to its output, which execution it is
// running (phase and choice prefix). The file survives the worker: when a worker dies (fatal
// error of the Go runtime such as out of memory or stack exhaustion, the kernel's OOM killer) or
// its watchdog finds one execution running far beyond anything the unchanged library needs, the
// coordinator knows the execution and decides it alone in a fresh process.

// ExecLimit is how long one execution may run before the worker gives up on it (executions on
// the unchanged tree take micro- to milliseconds; the longest single ones a few seconds).
var ExecLimit = 120 * time.Second

const progSize = 8192

func init() {
	if s := os.Getenv("VERIF_EXEC_LIMIT_S"); s != "" {
		if n, err := strconv.Atoi(s); err == nil && n > 0 {
			ExecLimit = time.Duration(n) * time.Second
		}
	}
}

var prog struct {
	mem   []byte
	phase string
	start atomic.Int64 // unix nanoseconds of the running execution, 0 = none
}

// InitProgress maps the progress file and starts the watchdog.
func InitProgress(path string) {
	f, err := os.OpenFile(path, os.O_RDWR|os.O_CREATE|os.O_TRUNC, 0o644)
	if err != nil {
		return
	}
	defer f.Close()
	if f.Truncate(progSize) != nil {
		return
	}
	m, err := syscall.Mmap(int(f.Fd()), 0, progSize, syscall.PROT_READ|syscall.PROT_WRITE, syscall.MAP_SHARED)
	if err != nil {
		return
	}
	prog.mem = m
	go func() {
		for {
			time.Sleep(time.Second)
			s := prog.start.Load()
			if s != 0 && time.Since(time.Unix(0, s)) > ExecLimit {
				// leave the record in place, mark it and stop: the coordinator decides this execution alone
				if prog.mem != nil {
					prog.mem[0] = 'S'
				}
				fmt.Fprintf(os.Stderr, "worker: one execution of phase %s has been running for more than %v; giving up on it\n", prog.phase, ExecLimit)
				os.Exit(4)
			}
		}
	}()
}

func progressPhase(name string) { prog.phase = name }

// progressStart records the execution about to run: "<flag><phase>\n<c0>,<c1>,...\n\x00".
func progressStart(prefix []int) {
	if prog.mem == nil {
		return
	}
	b := prog.mem[:1]
	b[0] = 'R'
	b = append(b, prog.phase...)
	b = append(b, '\n')
	for i, c := range prefix {
		if i > 0 {
			b = append(b, ',')
		}
		b = strconv.AppendInt(b, int64(c), 10)
		if len(b) > progSize-64 {
			break
		}
	}
	b = append(b, '\n', 0)
	prog.start.Store(time.Now().UnixNano())
}

func progressEnd() {
	if prog.mem == nil {
		return
	}
	prog.start.Store(0)
	prog.mem[0] = 0
}

// readProgress returns the execution a dead worker was running ("" phase if none).
func readProgress(path string) (phase string, prefix []int, stuck bool) {
	b, err := os.ReadFile(path)
	if err != nil || len(b) < 4 || (b[0] != 'R' && b[0] != 'S') {
		return "", nil, false
	}
	stuck = b[0] == 'S'
	end := strings.IndexByte(string(b), 0)
	if end < 0 {
		return "", nil, false
	}
	parts := strings.Split(string(b[1:end]), "\n")
	if len(parts) < 2 {
		return "", nil, false
	}
	phase = parts[0]
	if parts[1] != "" {
		for _, f := range strings.Split(parts[1], ",") {
			n, err := strconv.Atoi(f)
			if err != nil {
				return "", nil, false
			}
			prefix = append(prefix, n)
		}
	}
	return phase, prefix, stuck
}

// RunLoneExecution runs one execution (phase, prefix) of a check in this process and returns 0 when
// the body returned (whatever it judged).
func RunLoneExecution(id, tier, phase, csv string) int {
	ck := registry[id]
	if ck == nil {
		return 2
	}
	lim := syscall.Rlimit{Cur: 10 << 30, Max: 10 << 30}
	syscall.Setrlimit(syscall.RLIMIT_AS, &lim)
	var prefix []int
	if csv != "" {
		for _, f := range strings.Split(csv, ",") {
			n, err := strconv.Atoi(f)
			if err != nil {
				return 2
			}
			prefix = append(prefix, n)
		}
	}
	for _, ph := range ck.Phases(tier) {
		if ph.Name != phase || ph.Body == nil {
			continue
		}
		ex := NewExplorer(id, ph.Body, ph.Bounds, 0, 1, 1)
		ex.run(prefix, false)
		return 0
	}
	return 2
}

// decideLoneExecution re-runs the execution a dead or stuck worker was in, alone in a fresh process,
// with twice the limit (a process that dies is run a second time). It returns how it failed ("" if it returned at least once).
func decideLoneExecution(self, id, tier, phase string, prefix []int) string {
	strs := make([]string, len(prefix))
	for i, v := range prefix {
		strs[i] = strconv.Itoa(v)
	}
	how := ""
	for i := 0; i < 2; i++ {
		ctx, cancel := context.WithTimeout(context.Background(), 2*ExecLimit)
		cmd := exec.CommandContext(ctx, self, "-lone", phase, "-prop", id, "-tier", tier, "-choices", strings.Join(strs, ","))
		cmd.Env = append(os.Environ(), "GOMAXPROCS=2", "GOMEMLIMIT=3GiB")
		var sb strings.Builder
		cmd.Stderr = &sb
		err := cmd.Run()
		timedOut := ctx.Err() != nil
		cancel()
		if err == nil {
			return ""
		}
		if timedOut {
			// one run of twice the limit, alone on its process, is the verdict for a hang
			return fmt.Sprintf("no-result-within-%ds", int((2 * ExecLimit).Seconds()))
		} else {
			how = "process-died"
			if t := sb.String(); strings.Contains(t, "fatal error:") {
				i := strings.Index(t, "fatal error:")
				how = "process-died:" + strings.ReplaceAll(firstLine(t[i+len("fatal error:"):]), " ", "-")
				how = strings.Trim(how, "-")
				how = strings.ReplaceAll(how, ":-", ":")
			}
		}
	}
	return how
}

// The violation journal: the first violations of each signature are also appended, as they are found,
// to a file next to the worker's output, so that a worker that dies later in the same phase does not
// take them with it.
var journal *os.File

func initJournal(path string) { journal, _ = os.Create(path) }

func journalViolation(v Violation) {
	if journal == nil {
		return
	}
	if v.Detail == nil {
		v.Detail = map[string]any{}
	}
	rec := struct {
		Phase string    `json:"phase"`
		V     Violation `json:"v"`
	}{prog.phase, v}
	if b, err := json.Marshal(rec); err == nil {
		journal.Write(append(b, '\n'))
	}
}

// readJournal returns the journalled violations of the phases a dead worker did not finish.
func readJournal(path string, finished map[string]*Stats) map[string][]Violation {
	b, err := os.ReadFile(path)
	if err != nil {
		return nil
	}
	out := map[string][]Violation{}
	for _, line := range strings.Split(string(b), "\n") {
		var rec struct {
			Phase string    `json:"phase"`
			V     Violation `json:"v"`
		}
		if line == "" || json.Unmarshal([]byte(line), &rec) != nil {
			continue
		}
		if _, done := finished[rec.Phase]; done {
			continue
		}
		out[rec.Phase] = append(out[rec.Phase], rec.V)
	}
	return out
}
