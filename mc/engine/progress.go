package engine

import (
	"context"
	"encoding/json"
	"fmt"
	"os"
	"os/exec"
	"strconv"
	"strings"
	"sync/atomic"
	"syscall"
	"time"
)

// A worker keeps, in a small memory-mapped file next to its output, which execution it is
// running (phase and choice prefix). The file survives the worker: when a worker dies (fatal
// error of the Go runtime such as out of memory or stack exhaustion, the kernel's OOM killer) or
// its watchdog finds one execution running far beyond anything the unchanged library needs, the
// coordinator knows the execution and decides it alone in a fresh process.

// ExecLimit is how long one execution may run before the worker gives up on it (executions on
// the unchanged tree take micro- to milliseconds; the longest single ones a few seconds).
var ExecLimit = 180 * time.Second

const progSize = 8192

func init() {
	if s := os.Getenv("VERIF_EXEC_LIMIT_S"); s != "" {
		if n, err := strconv.Atoi(s); err == nil && n > 0 {
			ExecLimit = time.Duration(n) * time.Second
		}
	}
}

var prog struct {
	mem   []byte
	phase string
	start atomic.Int64 // unix nanoseconds of the running execution, 0 = none
}

// InitProgress maps the progress file and starts the watchdog.
func InitProgress(path string) {
	f, err := os.OpenFile(path, os.O_RDWR|os.O_CREATE|os.O_TRUNC, 0o644)
	if err != nil {
		return
	}
	defer f.Close()
	if f.Truncate(progSize) != nil {
		return
	}
	m, err := syscall.Mmap(int(f.Fd()), 0, progSize, syscall.PROT_READ|syscall.PROT_WRITE, syscall.MAP_SHARED)
	if err != nil {
		return
	}
	prog.mem = m
	go func() {
		for {
			time.Sleep(time.Second)
			s := prog.start.Load()
			if s != 0 && time.Since(time.Unix(0, s)) > ExecLimit {
				// leave the record in place, mark it and stop: the coordinator decides this execution alone
				if prog.mem != nil {
					prog.mem[0] = 'S'
				}
				fmt.Fprintf(os.Stderr, "worker: one execution of phase %s has been running for more than %v; giving up on it\n", prog.phase, ExecLimit)
				os.Exit(4)
			}
		}
	}()
}

func progressPhase(name string) { prog.phase = name }

// progressStart records the execution about to run: "<flag><phase>\n<c0>,<c1>,...\n\x00".
func progressStart(prefix []int) {
	if prog.mem == nil {
		return
	}
	b := prog.mem[:1]
	b[0] = 'R'
	b = append(b, prog.phase...)
	b = append(b, '\n')
	for i, c := range prefix {
		if i > 0 {
			b = append(b, ',')
		}
		b = strconv.AppendInt(b, int64(c), 10)
		if len(b) > progSize-64 {
			break
		}
	}
	b = append(b, '\n', 0)
	prog.start.Store(time.Now().UnixNano())
}

// progressStartBFS records a transition of an explicit-state search: the path from the initial state
// and the operation about to be applied: "<flag><phase>\nB\n<init ids, comma separated>\n<ops>\n\x00".
func progressStartBFS(tr Trace, op int) {
	if prog.mem == nil {
		return
	}
	b := prog.mem[:1]
	b[0] = 'R'
	b = append(b, prog.phase...)
	b = append(b, "\nB\n"...)
	for i, s := range tr.Init {
		if i > 0 {
			b = append(b, ',')
		}
		if len(b)+len(s) > progSize-256 {
			b[0] = 0 // too large to record: no lone re-run for this one
			return
		}
		b = append(b, s...)
	}
	b = append(b, '\n')
	for _, o := range tr.Ops {
		b = strconv.AppendInt(b, int64(o), 10)
		b = append(b, ',')
	}
	b = strconv.AppendInt(b, int64(op), 10)
	b = append(b, '\n', 0)
	prog.start.Store(time.Now().UnixNano())
}

// LongExecution tells the watchdog that the rest of this execution is legitimately long (it waits for a
// separate process, such as the free-running race pass): the per-execution limit does not apply to it.
func (c *Ctx) LongExecution() { progressEnd() }

func progressEnd() {
	if prog.mem == nil {
		return
	}
	prog.start.Store(0)
	prog.mem[0] = 0
}

// loneSpec identifies one execution: a choice prefix (E1) or an initial state and an operation path (E2).
type loneSpec struct {
	Phase  string
	Prefix []int
	BFS    bool
	Init   []string
	Ops    []int
	Stuck  bool
	worker int
}

func parseInts(csv string) ([]int, bool) {
	var r []int
	if csv == "" {
		return nil, true
	}
	for _, f := range strings.Split(csv, ",") {
		n, err := strconv.Atoi(f)
		if err != nil {
			return nil, false
		}
		r = append(r, n)
	}
	return r, true
}

// readLone returns the execution a dead worker was running (nil if none).
func readLone(path string) *loneSpec {
	b, err := os.ReadFile(path)
	if err != nil || len(b) < 4 || (b[0] != 'R' && b[0] != 'S') {
		return nil
	}
	end := strings.IndexByte(string(b), 0)
	if end < 0 {
		return nil
	}
	parts := strings.Split(string(b[1:end]), "\n")
	if len(parts) < 2 {
		return nil
	}
	sp := &loneSpec{Phase: parts[0], Stuck: b[0] == 'S'}
	if parts[1] == "B" {
		if len(parts) < 4 {
			return nil
		}
		sp.BFS = true
		if parts[2] != "" {
			sp.Init = strings.Split(parts[2], ",")
		}
		ops, ok := parseInts(parts[3])
		if !ok {
			return nil
		}
		sp.Ops = ops
		return sp
	}
	pf, ok := parseInts(parts[1])
	if !ok {
		return nil
	}
	sp.Prefix = pf
	return sp
}

// readProgress is readLone for choice-tree executions only (kept for callers that want the prefix).
func readProgress(path string) (phase string, prefix []int, stuck bool) {
	b, err := os.ReadFile(path)
	if err != nil || len(b) < 4 || (b[0] != 'R' && b[0] != 'S') {
		return "", nil, false
	}
	stuck = b[0] == 'S'
	end := strings.IndexByte(string(b), 0)
	if end < 0 {
		return "", nil, false
	}
	parts := strings.Split(string(b[1:end]), "\n")
	if len(parts) < 2 {
		return "", nil, false
	}
	phase = parts[0]
	if parts[1] != "" {
		for _, f := range strings.Split(parts[1], ",") {
			n, err := strconv.Atoi(f)
			if err != nil {
				return "", nil, false
			}
			prefix = append(prefix, n)
		}
	}
	return phase, prefix, stuck
}

// RunLoneExecution runs one execution (phase, prefix) of a check in this process and returns 0 when
// the body returned (whatever it judged).
func RunLoneExecution(id, tier, phase, csv string) int {
	return RunLone(id, tier, phase, csv, "", false)
}

// RunLone is RunLoneExecution for both kinds: with bfs set, csv is the operation path and init the
// comma-separated initial state.
func RunLone(id, tier, phase, csv, init string, bfs bool) int {
	ck := registry[id]
	if ck == nil {
		return 7
	}
	if bfs {
		lim := syscall.Rlimit{Cur: 10 << 30, Max: 10 << 30}
		syscall.Setrlimit(syscall.RLIMIT_AS, &lim)
		ops, ok := parseInts(csv)
		if !ok {
			return 7
		}
		var ini []string
		if init != "" {
			ini = strings.Split(init, ",")
		}
		for _, ph := range ck.Phases(tier) {
			if ph.Name == phase && ph.ReplayCustom != nil {
				ph.ReplayCustom(Violation{Property: id, Detail: map[string]any{"trace_init": ini, "trace_ops": ops}})
				return 0
			}
		}
		return 7
	}
	lim := syscall.Rlimit{Cur: 10 << 30, Max: 10 << 30}
	syscall.Setrlimit(syscall.RLIMIT_AS, &lim)
	var prefix []int
	if csv != "" {
		for _, f := range strings.Split(csv, ",") {
			n, err := strconv.Atoi(f)
			if err != nil {
				return 7
			}
			prefix = append(prefix, n)
		}
	}
	for _, ph := range ck.Phases(tier) {
		if ph.Name != phase || ph.Body == nil {
			continue
		}
		ex := NewExplorer(id, ph.Body, ph.Bounds, 0, 1, 1)
		ex.run(prefix, false)
		return 0
	}
	return 7
}

// decideLoneExecution re-runs the execution a dead or stuck worker was in, alone in a fresh process,
// with twice the limit (a process that dies is run a second time). It returns how it failed ("" if it returned at least once).
func decideLoneExecution(self, id, tier, phase string, prefix []int) string {
	return decideLone(self, id, tier, &loneSpec{Phase: phase, Prefix: prefix})
}

func decideLone(self, id, tier string, sp *loneSpec) string {
	phase := sp.Phase
	ints := sp.Prefix
	if sp.BFS {
		ints = sp.Ops
	}
	strs := make([]string, len(ints))
	for i, v := range ints {
		strs[i] = strconv.Itoa(v)
	}
	how := ""
	for i := 0; i < 2; i++ {
		ctx, cancel := context.WithTimeout(context.Background(), 2*ExecLimit)
		args := []string{"-lone", phase, "-prop", id, "-tier", tier, "-choices", strings.Join(strs, ",")}
		if sp.BFS {
			args = append(args, "-bfs-init", strings.Join(sp.Init, ","), "-bfs")
		}
		cmd := exec.CommandContext(ctx, self, args...)
		cmd.Env = append(os.Environ(), "GOMAXPROCS=2", "GOMEMLIMIT=3GiB")
		var sb strings.Builder
		cmd.Stderr = &sb
		err := cmd.Run()
		timedOut := ctx.Err() != nil
		cancel()
		if err == nil {
			return ""
		}
		if ee, ok := err.(*exec.ExitError); ok && ee.ExitCode() == 7 && !timedOut {
			return "" // the execution cannot be identified or replayed: no verdict
		}
		if timedOut {
			// one run of twice the limit, alone on its process, is the verdict for a hang
			return fmt.Sprintf("no-result-within-%ds", int((2 * ExecLimit).Seconds()))
		} else {
			how = "process-died"
			if t := sb.String(); strings.Contains(t, "fatal error:") {
				i := strings.Index(t, "fatal error:")
				how = "process-died:" + strings.ReplaceAll(firstLine(t[i+len("fatal error:"):]), " ", "-")
				how = strings.Trim(how, "-")
				how = strings.ReplaceAll(how, ":-", ":")
			}
		}
	}
	return how
}

// The violation journal: the first violations of each signature are also appended, as they are found,
// to a file next to the worker's output, so that a worker that dies later in the same phase does not
// take them with it.
var journal *os.File

func initJournal(path string) { journal, _ = os.Create(path) }

func journalViolation(v Violation) {
	if journal == nil {
		return
	}
	if v.Detail == nil {
		v.Detail = map[string]any{}
	}
	rec := struct {
		Phase string    `json:"phase"`
		V     Violation `json:"v"`
	}{prog.phase, v}
	if b, err := json.Marshal(rec); err == nil {
		journal.Write(append(b, '\n'))
	}
}

// readJournal returns the journalled violations of the phases a dead worker did not finish.
func readJournal(path string, finished map[string]*Stats) map[string][]Violation {
	b, err := os.ReadFile(path)
	if err != nil {
		return nil
	}
	out := map[string][]Violation{}
	for _, line := range strings.Split(string(b), "\n") {
		var rec struct {
			Phase string    `json:"phase"`
			V     Violation `json:"v"`
		}
		if line == "" || json.Unmarshal([]byte(line), &rec) != nil {
			continue
		}
		if _, done := finished[rec.Phase]; done {
			continue
		}
		out[rec.Phase] = append(out[rec.Phase], rec.V)
	}
	return out
}
