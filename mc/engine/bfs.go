package engine

import (
	"crypto/sha1"
	"encoding/binary"
	"fmt"
	"strings"
	"time"
)

// E2: explicit-state breadth-first search over an operation machine whose
// states are canonical (sorted, duplicate-free) lists of strings.

// StepResult is what applying one operation to one state produced.
type StepResult struct {
	Next       []string    // canonical successor (from the reference model); nil = no successor
	Validated  bool        // the implementation was called and compared on this transition
	Nontrivial bool        // by the machine's rule
	Skip       string      // non-empty: transition not taken (over budget etc.), with reason
	Violations []Violation // failures on this transition
	Outcome    string      // optional observation key
}

// Machine is an operation machine.
type Machine struct {
	Property string
	Name     string
	Inits    [][]string
	// NumOps returns the number of operations enabled in a state.
	NumOps func(state []string) int
	// Step applies operation i to the state.
	Step func(state []string, i int) StepResult
	// OpName names operation i of a state (for traces).
	OpName func(state []string, i int) string
	// Invariant is evaluated in every state (may be nil).
	Invariant func(state []string) []Violation
	MaxDepth  int
	MaxStates int
	// ReplayLastLevel re-derives every state of the last completed level by
	// replaying its whole path from its initial state and compares.
	ReplayLastLevel bool
	// Verified reports whether operation i of a state is one that is checked against the model
	// (as opposed to a driver). Used by the leaf sweep and the second pass.
	Verified func(state []string, i int) bool
	// LeafSweepMaxSize > 0: the states of the last level with at most this many elements also get
	// their verified operations executed (no successors are added).
	LeafSweepMaxSize int
	// Rejudge is the number of earliest states whose verified operations are executed once more at
	// the end (state carried between calls of the library shows up there).
	Rejudge int
}

type stateKey [2]uint64

func keyOf(s []string) stateKey {
	h := sha1.Sum([]byte(strings.Join(s, ",")))
	return stateKey{binary.LittleEndian.Uint64(h[0:8]), binary.LittleEndian.Uint64(h[8:16])}
}

type parentRef struct {
	parent stateKey
	op     int32
	init   int32 // >= 0 for initial states
}

// Trace is a path of operations from an initial state.
type Trace struct {
	Init []string `json:"init"`
	Ops  []int    `json:"ops"`
	Name []string `json:"op_names"`
}

// RunBFS explores the machine; results are accumulated into st.
func RunBFS(m *Machine, deadline time.Time, st *Stats) {
	visited := map[stateKey]parentRef{}
	type item struct {
		s []string
		k stateKey
	}
	var frontier []item
	for i, in := range m.Inits {
		k := keyOf(in)
		if _, ok := visited[k]; ok {
			continue
		}
		visited[k] = parentRef{init: int32(i)}
		frontier = append(frontier, item{in, k})
	}
	pathOf := func(k stateKey) Trace {
		var ops []int
		for {
			p := visited[k]
			if p.init >= 0 && p.op < 0 {
				break
			}
			ops = append(ops, int(p.op))
			k = p.parent
		}
		// reverse
		for i, j := 0, len(ops)-1; i < j; i, j = i+1, j-1 {
			ops[i], ops[j] = ops[j], ops[i]
		}
		return Trace{Init: m.Inits[visited[k].init], Ops: ops}
	}
	// initial states carry op = -1
	for k, p := range visited {
		p.op = -1
		visited[k] = p
	}
	depth := 0
	capped := false
	var lastLevel []item
	var earliest []item
	for len(frontier) > 0 && depth < m.MaxDepth {
		var next []item
		for _, it := range frontier {
			if len(earliest) < m.Rejudge {
				earliest = append(earliest, it)
			}
			if m.Invariant != nil {
				for _, v := range m.Invariant(it.s) {
					addViolation(st, v, pathOf(it.k))
				}
			}
			if !deadline.IsZero() && time.Now().After(deadline) {
				st.Exhaustive = false
				st.CapNotes = append(st.CapNotes, fmt.Sprintf("%s: deadline hit at depth %d with %d states", m.Name, depth, len(visited)))
				capped = true
				break
			}
			n := m.NumOps(it.s)
			var trOfState Trace
			if prog.mem != nil {
				trOfState = pathOf(it.k)
			}
			for i := 0; i < n; i++ {
				progressStartBFS(trOfState, i)
				r := m.Step(it.s, i)
				progressEnd()
				if r.Skip != "" {
					st.Skipped[r.Skip]++
					continue
				}
				st.Transitions++
				if r.Validated {
					st.Validated++
				}
				if r.Nontrivial {
					st.AddNontrivial(strings.Join(it.s, ",") + "#" + m.OpName(it.s, i))
				}
				if r.Outcome != "" {
					st.AddOutcome(r.Outcome)
				}
				for _, v := range r.Violations {
					tr := pathOf(it.k)
					tr.Ops = append(tr.Ops, i)
					addViolation(st, v, tr)
				}
				if r.Next == nil {
					continue
				}
				k := keyOf(r.Next)
				if _, ok := visited[k]; ok {
					continue
				}
				if m.MaxStates > 0 && len(visited) >= m.MaxStates {
					if !capped {
						st.Exhaustive = false
						st.CapNotes = append(st.CapNotes, fmt.Sprintf("%s: state cap %d hit at depth %d", m.Name, m.MaxStates, depth))
						capped = true
					}
					continue
				}
				visited[k] = parentRef{parent: it.k, op: int32(i), init: -1}
				next = append(next, item{r.Next, k})
			}
		}
		if capped && len(next) == 0 {
			break
		}
		depth++
		frontier = next
		if len(next) > 0 {
			lastLevel = next
		}
		if capped {
			break
		}
	}
	// states on the last level still get their invariant evaluated
	if m.Invariant != nil {
		for _, it := range frontier {
			for _, v := range m.Invariant(it.s) {
				addViolation(st, v, pathOf(it.k))
			}
		}
	}
	judgeOnly := func(it item, counter string) {
		n := m.NumOps(it.s)
		for i := 0; i < n; i++ {
			if m.Verified != nil && !m.Verified(it.s, i) {
				continue
			}
			progressStartBFS(pathOf(it.k), i)
			r := m.Step(it.s, i)
			progressEnd()
			if r.Skip != "" {
				continue
			}
			st.Counters[counter]++
			st.Transitions++
			if r.Validated {
				st.Validated++
			}
			for _, v := range r.Violations {
				tr := pathOf(it.k)
				tr.Ops = append(tr.Ops, i)
				if v.Detail == nil {
					v.Detail = map[string]any{}
				}
				v.Detail["found_in"] = counter
				addViolation(st, v, tr)
			}
		}
	}
	if m.LeafSweepMaxSize > 0 && !capped {
		for _, it := range frontier {
			if len(it.s) <= m.LeafSweepMaxSize {
				if !deadline.IsZero() && time.Now().After(deadline) {
					break
				}
				judgeOnly(it, "leaf_sweep_transitions")
			}
		}
	}
	if m.Rejudge > 0 && !capped {
		for _, it := range earliest {
			judgeOnly(it, "rejudged_after_history")
		}
	}
	if m.ReplayLastLevel {
		for _, it := range lastLevel {
			tr := pathOf(it.k)
			s := tr.Init
			ok := true
			for _, op := range tr.Ops {
				r := m.Step(s, op)
				if r.Next == nil {
					ok = false
					break
				}
				s = r.Next
			}
			st.Counters["paths_replayed_from_init"]++
			if !ok || keyOf(s) != it.k {
				panic(fmt.Sprintf("engine: %s: replaying path %v from %v does not reach the recorded state — hidden state or nondeterminism", m.Name, tr.Ops, tr.Init))
			}
		}
	}
	st.States += int64(len(visited))
	st.Executions += int64(len(visited))
	if depth > st.MaxDepth {
		st.MaxDepth = depth
	}
	st.Counters["bfs_states_"+m.Name] = int64(len(visited))
	if len(st.Samples) < 4 && len(lastLevel) > 0 {
		it := lastLevel[len(lastLevel)/2]
		tr := pathOf(it.k)
		s := tr.Init
		for _, op := range tr.Ops {
			tr.Name = append(tr.Name, m.OpName(s, op))
			s = m.Step(s, op).Next
		}
		st.Samples = append(st.Samples, map[string]any{"machine": m.Name, "trace": tr, "reached_state": it.s})
	}
}

func addViolation(st *Stats, v Violation, tr Trace) {
	st.ViolationN++
	st.SigCounts[v.Sig]++
	if st.SigCounts[v.Sig] <= 2 && len(st.Violations) < 40 {
		if v.Detail == nil {
			v.Detail = map[string]any{}
		}
		v.Detail = SanitizeDetail(v.Detail)
		v.Detail["trace_init"] = tr.Init
		v.Detail["trace_ops"] = tr.Ops
		st.Violations = append(st.Violations, v)
	}
}

// ReplayTrace re-runs a recorded BFS trace and returns the violations of its
// last transition.
func ReplayTrace(m *Machine, init []string, ops []int) []Violation {
	s := init
	var last []Violation
	for _, op := range ops {
		if op >= m.NumOps(s) {
			return nil
		}
		r := m.Step(s, op)
		last = r.Violations
		if r.Next == nil {
			break
		}
		s = r.Next
	}
	if len(ops) == 0 && m.Invariant != nil {
		return m.Invariant(s)
	}
	if m.Invariant != nil {
		last = append(last, m.Invariant(s)...)
	}
	return last
}
