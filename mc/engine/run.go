package engine

import (
	"bufio"
	"context"
	"crypto/sha1"
	"encoding/binary"
	"encoding/json"
	"fmt"
	"io"
	"os"
	"os/exec"
	"path/filepath"
	"sort"
	"strconv"
	"strings"
	"sync"
	"syscall"
	"time"
)

// Phase is one enumerated space of a property check.
type Phase struct {
	Name       string
	Body       func(*Ctx) // E1 harness body (nil when Custom is set)
	Bounds     Bounds
	ShardDepth int
	// Custom runs an engine other than E1 (E2 search, interleaving explorer).
	// It must partition its own work by shard/nshards and fill st.
	Custom func(shard, nshards int, deadline time.Time, st *Stats)
	// ReplayCustom re-runs one recorded violation of a Custom phase and
	// returns the violations it produces (nil if the phase has no replay).
	ReplayCustom func(v Violation) []Violation
	Budget       time.Duration // per-worker wall budget (0 = default for tier)
	Rule         string        // how cases are enumerated / what counts as non-trivial
	Serial       bool          // run in one worker only (cheap phases)
	// Stateful marks phases whose subject is state that persists in the library between executions
	// (C19): executions of one process are then not independent, so the in-process determinism
	// self-check and the in-process 5x replay are replaced by replays in fresh processes.
	Stateful bool
	// NoCrossSection disables the single-process extremes cross-section (phases with Env choices whose
	// executions are expensive).
	NoCrossSection bool
}

// Check is the verification of one property.
type Check struct {
	ID          string
	Title       string
	Technique   string
	Assumptions []string
	Phases      func(tier string) []Phase
}

var registry = map[string]*Check{}

// Register adds a check (called from init functions of package props).
func Register(c *Check) { registry[c.ID] = c }

// Lookup returns a registered check.
func Lookup(id string) *Check { return registry[id] }

// IDs lists registered property ids.
func IDs() []string {
	var r []string
	for k := range registry {
		r = append(r, k)
	}
	sort.Strings(r)
	return r
}

// VerifDir is the root of the verification tree.
var VerifDir = func() string {
	if d := os.Getenv("VERIF_DIR"); d != "" {
		return d
	}
	return "/verif"
}()

type workerOut struct {
	Phases map[string]*Stats `json:"phases"`
}

func defaultBudget(tier string) time.Duration {
	if tier == "thorough" {
		return 25 * time.Minute
	}
	return 150 * time.Second
}

// RunWorker executes the phases of one shard and writes the partial result.
func RunWorker(id, tier string, shard, nshards int, outPath string) error {
	ck := registry[id]
	if ck == nil {
		return fmt.Errorf("unknown property %s", id)
	}
	// a runaway library call must kill this worker, not the machine
	lim := syscall.Rlimit{Cur: 10 << 30, Max: 10 << 30}
	syscall.Setrlimit(syscall.RLIMIT_AS, &lim)
	out := workerOut{Phases: map[string]*Stats{}}
	hashes := map[string][2][]uint64{}
	InitProgress(outPath + ".progress")
	initJournal(outPath + ".viol")
	writeOut := func() error {
		f, err := os.Create(outPath + ".tmp")
		if err != nil {
			return err
		}
		if err := json.NewEncoder(f).Encode(out); err != nil {
			// never lose violations to an encoding problem: retry with details and samples flattened to strings
			for _, st := range out.Phases {
				for i := range st.Violations {
					st.Violations[i].Detail = map[string]any{"detail": fmt.Sprint(st.Violations[i].Detail)}
				}
				for i := range st.Samples {
					st.Samples[i] = fmt.Sprint(st.Samples[i])
				}
			}
			f.Close()
			if f, err = os.Create(outPath + ".tmp"); err != nil {
				return err
			}
			if err := json.NewEncoder(f).Encode(out); err != nil {
				return err
			}
		}
		f.Close()
		// side file with the hash sets so the coordinator can count distinct
		// outcomes / non-trivial cases across shards exactly
		if err := os.Rename(outPath+".tmp", outPath); err != nil {
			return err
		}
		hf, err := os.Create(outPath + ".h")
		if err != nil {
			return err
		}
		w := bufio.NewWriter(hf)
		names := make([]string, 0, len(hashes))
		for k := range hashes {
			names = append(names, k)
		}
		sort.Strings(names)
		for _, name := range names {
			for which := 0; which < 2; which++ {
				fmt.Fprintf(w, "%s %d %d\n", name, which, len(hashes[name][which]))
				for _, v := range hashes[name][which] {
					binary.Write(w, binary.LittleEndian, v)
				}
			}
		}
		w.Flush()
		return hf.Close()
	}
	for _, ph := range ck.Phases(tier) {
		if ph.Serial && shard != 0 {
			continue
		}
		progressPhase(ph.Name)
		b := ph.Budget
		if b == 0 {
			b = defaultBudget(tier)
		}
		dl := time.Now().Add(b)
		var st *Stats
		ns, sh := nshards, shard
		if ph.Serial {
			ns, sh = 1, 0
		}
		if ph.Custom != nil {
			st = newStats()
			func() {
				defer func() {
					if r := recover(); r != nil {
						if s, ok := r.(string); ok && strings.HasPrefix(s, "engine:") {
							panic(s)
						}
						st.Violations = append(st.Violations, Violation{Property: id, Sig: "harness-uncaught-panic", Detail: map[string]any{"panic": fmt.Sprint(r), "phase": ph.Name}})
						st.ViolationN++
					}
				}()
				ph.Custom(sh, ns, dl, st)
			}()
			st.OutcomeN = int64(len(st.Outcomes))
			st.NontrivN = int64(len(st.Nontriv))
		} else {
			ex := NewExplorer(id, ph.Body, ph.Bounds, sh, ns, ph.ShardDepth)
			if ph.Stateful {
				ex.selfCheck = 0
				ex.Repass = 0
			} else if ph.Serial {
				// cheap single-process phases: every execution is immediately repeated ("the same call twice
				// in a row"), which is both the determinism self-check and a probe for last-call memos
				ex.selfCheck = 1 << 30
			}
			ex.Deadline = dl
			func() {
				defer func() {
					if r := recover(); r != nil {
						msg, ok := r.(string)
						if !ok || !strings.HasPrefix(msg, "engine:") {
							panic(r)
						}
						// replay divergence / failed determinism self-check: the executions of this phase are not
						// independent of each other (the code under test keeps state between calls, or some
						// nondeterminism is not owned). No verdict is drawn from the rest of this phase.
						ex.Stats.Exhaustive = false
						ex.Stats.CapNotes = append(ex.Stats.CapNotes, "phase "+ph.Name+" abandoned after "+fmt.Sprint(ex.Stats.Executions)+" executions: "+firstLine(msg))
						ex.Stats.Counters["phase_abandoned_replay_divergence"]++
						ex.Stats.OutcomeN = int64(len(ex.Stats.Outcomes))
						ex.Stats.NontrivN = int64(len(ex.Stats.Nontriv))
					}
				}()
				ex.Explore()
			}()
			st = ex.Stats
		}
		// cross-section in one process: the executions whose input choices are all the first or the last
		// element of their alphabet (extreme zooms, first/last index ...) are run again by worker 0 in a
		// single address space and judged twice, so that state carried between calls with colliding
		// extreme inputs shows even though the main enumeration is sharded over processes
		if ph.Body != nil && !ph.Stateful && !ph.Serial && shard == 0 && nshards > 1 && !ph.NoCrossSection {
			cx := NewExplorer(id, ph.Body, Bounds{EnvDev: 0, InputDev: ph.Bounds.InputDev}, 0, 1, 1)
			cx.ExtremesOnly = true
			cx.MaxExec = 3000
			cx.Repass = 3000
			cx.selfCheck = 0
			cx.Deadline = time.Now().Add(60 * time.Second)
			func() {
				defer func() {
					if r := recover(); r != nil {
						if msg, ok := r.(string); !ok || !strings.HasPrefix(msg, "engine:") {
							panic(r)
						}
					}
				}()
				cx.Explore()
			}()
			st.Counters["cross_section_executions"] += cx.Stats.Executions
			st.Counters["cross_section_rejudged"] += cx.Stats.Counters["rejudged_after_history"]
			for _, v := range cx.Stats.Violations {
				if v.Detail == nil {
					v.Detail = map[string]any{}
				}
				v.Detail["cross_section"] = "found in the single-process cross-section (extreme inputs only, judged twice)"
				st.ViolationN++
				st.SigCounts[v.Sig]++
				if len(st.Violations) < 60 {
					st.Violations = append(st.Violations, v)
				}
			}
		}
		for i := range st.Violations {
			if st.Violations[i].Detail == nil {
				st.Violations[i].Detail = map[string]any{}
			}
			st.Violations[i].Detail["phase"] = ph.Name
			st.Violations[i].Detail["worker"] = fmt.Sprintf("%d/%d", shard, nshards)
		}
		out.Phases[ph.Name] = st
		var o, n []uint64
		for k := range st.Outcomes {
			o = append(o, k)
		}
		for k := range st.Nontriv {
			n = append(n, k)
		}
		hashes[ph.Name] = [2][]uint64{o, n}
		// what is finished is on disk before the next phase starts: a worker that dies later loses only that phase
		if err := writeOut(); err != nil {
			return err
		}
	}
	return writeOut()
}

func readHashes(path string, into map[string]*[2]map[uint64]struct{}) error {
	f, err := os.Open(path)
	if err != nil {
		return err
	}
	defer f.Close()
	r := bufio.NewReader(f)
	for {
		line, err := r.ReadString('\n')
		if err == io.EOF {
			return nil
		}
		if err != nil {
			return err
		}
		parts := strings.Fields(line)
		if len(parts) != 3 {
			return fmt.Errorf("bad hash header %q", line)
		}
		which, _ := strconv.Atoi(parts[1])
		n, _ := strconv.Atoi(parts[2])
		e := into[parts[0]]
		if e == nil {
			e = &[2]map[uint64]struct{}{{}, {}}
			into[parts[0]] = e
		}
		buf := make([]byte, 8)
		for i := 0; i < n; i++ {
			if _, err := io.ReadFull(r, buf); err != nil {
				return err
			}
			e[which][binary.LittleEndian.Uint64(buf)] = struct{}{}
		}
	}
}

// KnownFinding is one entry of /verif/known_findings.json.
type KnownFinding struct {
	Property string `json:"property"`
	Sig      string `json:"sig"`
	What     string `json:"what"`
}

type knownFile struct {
	Findings []KnownFinding `json:"findings"`
	Fixed    []string       `json:"fixed"`
}

func loadKnown() (knownFile, error) {
	var k knownFile
	b, err := os.ReadFile(filepath.Join(VerifDir, "known_findings.json"))
	if err != nil {
		if os.IsNotExist(err) {
			return k, nil
		}
		return k, err
	}
	err = json.Unmarshal(b, &k)
	return k, err
}

// Evidence mirrors EVIDENCE.schema.json.
type Evidence struct {
	PropertyID  string         `json:"property_id"`
	Tier        string         `json:"tier"`
	Seed        int            `json:"seed"`
	Level       string         `json:"level"`
	Coverage    map[string]any `json:"coverage"`
	Assumptions []string       `json:"assumptions"`
	WallS       float64        `json:"wall_s"`
	Violations  int            `json:"violations"`
}

// RunCheck is the coordinator: it spawns workers, merges, confirms
// violations, writes evidence and returns the process exit code.
func RunCheck(id, tier string, nworkers int) int {
	start := time.Now()
	ck := registry[id]
	if ck == nil {
		fmt.Fprintf(os.Stderr, "unknown property %s (have %v)\n", id, IDs())
		return 2
	}
	self, err := os.Executable()
	if err != nil {
		fmt.Fprintln(os.Stderr, err)
		return 2
	}
	tmp, err := os.MkdirTemp(filepath.Join(VerifDir, ".build"), "run-"+id+"-")
	if err != nil {
		fmt.Fprintln(os.Stderr, err)
		return 2
	}
	defer os.RemoveAll(tmp)
	phases := ck.Phases(tier)
	var maxBudget time.Duration
	for _, ph := range phases {
		b := ph.Budget
		if b == 0 {
			b = defaultBudget(tier)
		}
		maxBudget += b
	}
	type wres struct {
		idx  int
		err  error
		tail string
	}
	var wg sync.WaitGroup
	results := make([]wres, nworkers)
	for w := 0; w < nworkers; w++ {
		wg.Add(1)
		go func(w int) {
			defer wg.Done()
			out := filepath.Join(tmp, fmt.Sprintf("w%d.json", w))
			ctx, cancel := context.WithTimeout(context.Background(), maxBudget*3/2+2*time.Minute)
			defer cancel()
			cmd := exec.CommandContext(ctx, self, "-prop", id, "-tier", tier, "-shard", strconv.Itoa(w), "-nshards", strconv.Itoa(nworkers), "-out", out)
			cmd.Env = append(os.Environ(), "GOMAXPROCS=2", "GOMEMLIMIT=3GiB")
			var sb strings.Builder
			cmd.Stdout = &sb
			cmd.Stderr = &sb
			err := cmd.Run()
			t := sb.String()
			if len(t) > 3000 {
				t = t[:1500] + "\n...\n" + t[len(t)-1500:]
			}
			results[w] = wres{w, err, t}
		}(w)
	}
	wg.Wait()

	merged := map[string]*Stats{}
	hashes := map[string]*[2]map[uint64]struct{}{}
	var workerFailures []string
	var lone []Violation
	var loneSpecs []*loneSpec
	infraErr := false
	for w := 0; w < nworkers; w++ {
		if results[w].err != nil {
			msg := fmt.Sprintf("worker %d: %v: %s", w, results[w].err, results[w].tail)
			workerFailures = append(workerFailures, msg)
			if strings.Contains(results[w].tail, "engine:") {
				infraErr = true
			}
			// the execution the worker was in when it died or gave up is decided alone in a fresh process (below)
			if sp := readLone(filepath.Join(tmp, fmt.Sprintf("w%d.json.progress", w))); sp != nil {
				sp.worker = w
				loneSpecs = append(loneSpecs, sp)
			}
			// what the worker had finished before is still used
		}
		var wo workerOut
		b, err := os.ReadFile(filepath.Join(tmp, fmt.Sprintf("w%d.json", w)))
		if err != nil {
			if results[w].err == nil {
				workerFailures = append(workerFailures, fmt.Sprintf("worker %d: %v", w, err))
				continue
			}
			wo = workerOut{Phases: map[string]*Stats{}} // died during its first phase
		} else if err := json.Unmarshal(b, &wo); err != nil {
			workerFailures = append(workerFailures, fmt.Sprintf("worker %d: %v", w, err))
			continue
		}
		if err := readHashes(filepath.Join(tmp, fmt.Sprintf("w%d.json.h", w)), hashes); err != nil && results[w].err == nil {
			workerFailures = append(workerFailures, fmt.Sprintf("worker %d hashes: %v", w, err))
		}
		for name, st := range wo.Phases {
			m := merged[name]
			if m == nil {
				m = newStats()
				merged[name] = m
			}
			mergeStats(m, st)
		}
		if results[w].err != nil {
			// violations the worker found in the phase it did not finish
			for name, vs := range readJournal(filepath.Join(tmp, fmt.Sprintf("w%d.json.viol", w)), wo.Phases) {
				m := merged[name]
				if m == nil {
					m = newStats()
					merged[name] = m
				}
				m.Exhaustive = false
				for _, v := range vs {
					if v.Detail == nil {
						v.Detail = map[string]any{}
					}
					v.Detail["phase"] = name
					v.Detail["worker"] = fmt.Sprintf("%d/%d (the worker did not finish this phase)", w, nworkers)
					m.ViolationN++
					m.SigCounts[v.Sig]++
					m.Violations = append(m.Violations, v)
				}
			}
		}
	}
	_ = infraErr
	// executions that dead or stuck workers were in: at most two distinct ones per phase are decided (in
	// parallel, each alone in its own fresh process); a hang usually stops every worker at its first
	// execution of the same kind
	{
		perPhase := map[string]int{}
		seen := map[string]bool{}
		var pick []*loneSpec
		for _, sp := range loneSpecs {
			key := fmt.Sprint(sp.Phase, sp.Prefix, sp.Init, sp.Ops)
			if seen[key] || perPhase[sp.Phase] >= 2 {
				continue
			}
			seen[key] = true
			perPhase[sp.Phase]++
			pick = append(pick, sp)
		}
		hows := make([]string, len(pick))
		var lw sync.WaitGroup
		for i, sp := range pick {
			lw.Add(1)
			go func(i int, sp *loneSpec) {
				defer lw.Done()
				hows[i] = decideLone(self, id, tier, sp)
			}(i, sp)
		}
		lw.Wait()
		for i, sp := range pick {
			if hows[i] != "" {
				d := map[string]any{"phase": sp.Phase, "worker": fmt.Sprintf("%d/%d", sp.worker, nworkers), "worker_gave_up_after_exec_limit": sp.Stuck,
					"workers_that_stopped_in_this_phase": len(loneSpecs),
					"confirmation":                       "the execution was run again, alone, in a fresh process with twice the limit (twice if the process died) and did not return"}
				if sp.BFS {
					d["trace_init"], d["trace_ops"] = sp.Init, sp.Ops
				}
				lone = append(lone, Violation{Property: id, Sig: fmt.Sprintf("%s:%s:operation-does-not-return[%s]", id, sp.Phase, hows[i]), Choices: sp.Prefix, Detail: d})
			} else {
				workerFailures = append(workerFailures, fmt.Sprintf("worker %d: the execution it was in (phase %s, %v %v %v) returns when run alone: no verdict", sp.worker, sp.Phase, sp.Prefix, sp.Init, sp.Ops))
			}
		}
	}

	// confirm violations by replaying each 5 times in this process
	known, err := loadKnown()
	if err != nil {
		fmt.Fprintln(os.Stderr, "known_findings.json:", err)
		return 2
	}
	knownBySig := map[string]KnownFinding{}
	for _, k := range known.Findings {
		if k.Property == id {
			knownBySig[k.Sig] = k
		}
	}
	knownSeen := map[string]int64{}
	var unknown []Violation
	var unconfirmed []string
	phaseByName := map[string]Phase{}
	for _, ph := range phases {
		phaseByName[ph.Name] = ph
	}
	totalViol := int64(0)
	for name, st := range merged {
		totalViol += st.ViolationN
		for sig, n := range st.SigCounts {
			if _, ok := knownBySig[sig]; ok {
				knownSeen[sig] += n
			}
		}
		ph := phaseByName[name]
		for _, v := range st.Violations {
			if _, ok := knownBySig[v.Sig]; ok {
				continue
			}
			confirmed := v
			skipThis := false
			if ph.Stateful {
				// replay in fresh processes; an observed violation is reported even if it depends on the
				// history of the worker that found it (every source of nondeterminism is owned by the explorer)
				tb, _ := json.Marshal(map[string]any{"property": id, "tier": tier, "violation": v})
				tf := filepath.Join(tmp, fmt.Sprintf("stateful-%d.json", len(unknown)))
				os.WriteFile(tf, tb, 0o644)
				ok := 0
				for i := 0; i < 3; i++ {
					cmd := exec.Command(self, "-replay", tf)
					cmd.Env = os.Environ()
					if err := cmd.Run(); err != nil {
						if ee, isExit := err.(*exec.ExitError); isExit && ee.ExitCode() == 1 {
							ok++
						}
					}
				}
				if confirmed.Detail == nil {
					confirmed.Detail = map[string]any{}
				}
				confirmed.Detail["fresh_process_replays_reproduced"] = fmt.Sprintf("%d/3", ok)
				unknown = append(unknown, confirmed)
				continue
			}
			if ph.Body != nil {
				ex := NewExplorer(id, ph.Body, ph.Bounds, 0, 1, 1)
				var vs []Violation
				diverged := ""
				func() {
					defer func() {
						if r := recover(); r != nil {
							diverged = fmt.Sprint(r)
						}
					}()
					vs, _ = ex.Replay(v.Choices, v.Labels, 5)
				}()
				if diverged != "" {
					if rerunShardReproduces(self, id, tier, tmp, name, v) {
						v.Detail["confirmation"] = "history-dependent: does not reproduce in isolation but reproduces when the worker shard is re-run from its start in a fresh process (the library keeps state between calls)"
						unknown = append(unknown, v)
					} else {
						unconfirmed = append(unconfirmed, fmt.Sprintf("%s (phase %s): %s", v.Sig, name, firstLine(diverged)))
					}
					continue
				}
				found := false
				for _, rv := range vs {
					if rv.Sig == v.Sig {
						found = true
						confirmed = rv
						if confirmed.Detail == nil {
							confirmed.Detail = map[string]any{}
						}
						confirmed.Detail["phase"] = name
					}
				}
				if !found {
					if rerunShardReproduces(self, id, tier, tmp, name, v) {
						v.Detail["confirmation"] = "history-dependent: does not reproduce in isolation but reproduces when the worker shard is re-run from its start in a fresh process (the library keeps state between calls)"
						unknown = append(unknown, v)
					} else {
						unconfirmed = append(unconfirmed, fmt.Sprintf("%s (phase %s): not reproduced on replay", v.Sig, name))
					}
					continue
				}
			} else if ph.ReplayCustom != nil {
				for i := 0; i < 5; i++ {
					vs := ph.ReplayCustom(v)
					found := false
					for _, rv := range vs {
						if rv.Sig == v.Sig {
							found = true
						}
					}
					if !found {
						if rerunShardReproduces(self, id, tier, tmp, name, v) {
							confirmed.Detail["confirmation"] = "history-dependent: does not reproduce in isolation but reproduces when the worker shard is re-run from its start in a fresh process (the library keeps state between calls)"
						} else {
							unconfirmed = append(unconfirmed, fmt.Sprintf("%s (phase %s): not reproduced on replay %d", v.Sig, name, i))
							skipThis = true
						}
						break
					}
				}
			}
			if skipThis {
				continue
			}
			unknown = append(unknown, confirmed)
		}
	}
	for _, v := range lone {
		if _, ok := knownBySig[v.Sig]; ok {
			knownSeen[v.Sig]++
			continue
		}
		unknown = append(unknown, v)
	}
	sort.Slice(unknown, func(i, j int) bool { return unknown[i].Sig < unknown[j].Sig })

	// evidence
	cov := map[string]any{}
	var states, trans, valid, execs, nontriv, outcomes, envPts, selfN int64
	exhaustive := len(workerFailures) == 0
	var samples []any
	var rules []string
	perPhase := map[string]any{}
	var capNotes []string
	names := make([]string, 0, len(merged))
	for n := range merged {
		names = append(names, n)
	}
	sort.Strings(names)
	for _, name := range names {
		st := merged[name]
		if h := hashes[name]; h != nil {
			st.OutcomeN = int64(len(h[0]))
			st.NontrivN = int64(len(h[1]))
		}
		states += st.States
		trans += st.Transitions
		valid += st.Validated
		execs += st.Executions
		nontriv += st.NontrivN
		outcomes += st.OutcomeN
		envPts += st.EnvPoints
		selfN += st.SelfCheckRuns
		if !st.Exhaustive {
			exhaustive = false
		}
		capNotes = append(capNotes, st.CapNotes...)
		for i, s := range st.Samples {
			if i < 3 {
				samples = append(samples, map[string]any{"phase": name, "case": s})
			}
		}
		ph := phaseByName[name]
		rules = append(rules, name+": "+ph.Rule)
		perPhase[name] = map[string]any{
			"executions": st.Executions, "states": st.States, "transitions": st.Transitions,
			"validated": st.Validated, "env_choice_points": st.EnvPoints, "max_depth": st.MaxDepth,
			"distinct_outcomes": st.OutcomeN, "distinct_nontrivial": st.NontrivN,
			"skipped": st.Skipped, "counters": st.Counters, "exhaustive": st.Exhaustive,
			"bounds":     map[string]int{"env_deviations": ph.Bounds.EnvDev, "input_deviations": ph.Bounds.InputDev},
			"violations": st.ViolationN, "violation_sigs": st.SigCounts,
		}
	}
	if len(samples) == 0 {
		samples = append(samples, "no sample recorded")
	}
	cov["states"] = states
	cov["transitions"] = trans
	cov["traces_validated_against_impl"] = valid
	cov["evaluations"] = execs
	cov["distinct_nontrivial"] = nontriv
	cov["distinct_outcomes"] = outcomes
	cov["rule"] = strings.Join(rules, " || ")
	cov["samples"] = samples
	cov["exhaustive"] = exhaustive
	cov["env_choice_points"] = envPts
	cov["selfcheck_replays"] = selfN
	cov["phases"] = perPhase
	cov["workers"] = nworkers
	cov["worker_failures"] = workerFailures
	if len(unconfirmed) > 0 {
		exhaustive = false
		cov["exhaustive"] = false
	}
	cov["unconfirmed_observations_dropped"] = unconfirmed
	cov["cap_notes"] = capNotes
	cov["technique"] = ck.Technique
	var kf []string
	for sig, k := range knownBySig {
		kf = append(kf, fmt.Sprintf("%s (observed %d times): %s", sig, knownSeen[sig], k.What))
	}
	sort.Strings(kf)
	cov["known_findings_matched"] = kf
	seed := 0
	if s := os.Getenv("VERIF_SEED"); s != "" {
		seed, _ = strconv.Atoi(s)
	}
	ev := Evidence{PropertyID: id, Tier: tier, Seed: seed, Level: "model_checking", Coverage: cov,
		Assumptions: ck.Assumptions, WallS: time.Since(start).Seconds(), Violations: len(unknown)}
	os.MkdirAll(filepath.Join(VerifDir, "evidence"), 0o755)
	eb, _ := json.MarshalIndent(ev, "", " ")
	if err := os.WriteFile(filepath.Join(VerifDir, "evidence", id+".json"), eb, 0o644); err != nil {
		fmt.Fprintln(os.Stderr, err)
		return 2
	}

	fmt.Printf("%s %s: executions=%d states=%d transitions=%d validated=%d distinct_outcomes=%d distinct_nontrivial=%d env_points=%d exhaustive=%v wall=%.1fs\n",
		id, tier, execs, states, trans, valid, outcomes, nontriv, envPts, exhaustive, time.Since(start).Seconds())
	for _, name := range names {
		st := merged[name]
		fmt.Printf("  phase %-28s exec=%-10d states=%-10d viol=%-6d skipped=%v counters=%s\n", name, st.Executions, st.States, st.ViolationN, st.Skipped, trunc(compact(st.Counters), 300))
	}
	for _, f := range workerFailures {
		fmt.Printf("  WORKER-FAILURE (run not exhaustive): %s\n", firstLine(f))
	}
	for _, n := range capNotes {
		fmt.Printf("  CAP: %s\n", n)
	}
	for _, u := range unconfirmed {
		fmt.Printf("  UNCONFIRMED (dropped, no verdict): %s\n", u)
	}
	sigsK := make([]string, 0, len(knownBySig))
	for s := range knownBySig {
		sigsK = append(sigsK, s)
	}
	sort.Strings(sigsK)
	for _, s := range sigsK {
		fmt.Printf("KNOWN-FINDING: property=%s %s [sig=%s, observed %d times in this run]\n", id, knownBySig[s].What, s, knownSeen[s])
	}
	if len(unknown) == 0 {
		return 0
	}
	os.MkdirAll(filepath.Join(VerifDir, "replays"), 0o755)
	printed := map[string]bool{}
	for _, v := range unknown {
		b, _ := json.MarshalIndent(map[string]any{"property": id, "tier": tier, "violation": v}, "", " ")
		sum := sha1.Sum(b)
		p := filepath.Join(VerifDir, "replays", fmt.Sprintf("%s-%x.json", id, sum[:5]))
		os.WriteFile(p, b, 0o644)
		if !printed[v.Sig] {
			printed[v.Sig] = true
			d, _ := json.Marshal(v.Detail)
			fmt.Printf("VIOLATION property=%s replay=%s\n  sig=%s\n  detail=%s\n", id, p, v.Sig, trunc(string(d), 1500))
		}
	}
	fmt.Printf("%s: %d violation(s) in total, %d distinct signature(s) not listed as known\n", id, totalViol, len(printed))
	return 1
}

// rerunShardReproduces re-runs the worker shard that reported v in a fresh process and reports
// whether the same violation (signature and choice list) is found again.
func rerunShardReproduces(self, id, tier, tmp, phase string, v Violation) bool {
	w, _ := v.Detail["worker"].(string)
	var shard, n int
	if _, err := fmt.Sscanf(w, "%d/%d", &shard, &n); err != nil || n < 1 {
		return false
	}
	out := filepath.Join(tmp, fmt.Sprintf("rerun-%d-%d.json", shard, time.Now().UnixNano()))
	cmd := exec.Command(self, "-prop", id, "-tier", tier, "-shard", strconv.Itoa(shard), "-nshards", strconv.Itoa(n), "-out", out)
	cmd.Env = append(os.Environ(), "GOMAXPROCS=2")
	if err := cmd.Run(); err != nil {
		return false
	}
	b, err := os.ReadFile(out)
	if err != nil {
		return false
	}
	var wo workerOut
	if json.Unmarshal(b, &wo) != nil {
		return false
	}
	st := wo.Phases[phase]
	if st == nil {
		return false
	}
	for _, x := range st.Violations {
		if x.Sig == v.Sig && fmt.Sprint(x.Choices) == fmt.Sprint(v.Choices) &&
			fmt.Sprint(x.Detail["trace_init"], x.Detail["trace_ops"]) == fmt.Sprint(v.Detail["trace_init"], v.Detail["trace_ops"]) {
			return true
		}
	}
	return false
}

func firstLine(s string) string {
	if i := strings.IndexByte(s, '\n'); i >= 0 {
		return s[:i]
	}
	return s
}

func trunc(s string, n int) string {
	if len(s) > n {
		return s[:n] + "…"
	}
	return s
}

func compact(m map[string]int64) string {
	keys := make([]string, 0, len(m))
	for k := range m {
		keys = append(keys, k)
	}
	sort.Strings(keys)
	var sb strings.Builder
	for _, k := range keys {
		fmt.Fprintf(&sb, "%s=%d ", k, m[k])
	}
	return strings.TrimSpace(sb.String())
}

func mergeStats(m, st *Stats) {
	m.Executions += st.Executions
	m.States += st.States
	m.Transitions += st.Transitions
	m.Validated += st.Validated
	m.EnvPoints += st.EnvPoints
	m.SelfCheckRuns += st.SelfCheckRuns
	m.ViolationN += st.ViolationN
	if st.MaxDepth > m.MaxDepth {
		m.MaxDepth = st.MaxDepth
	}
	if !st.Exhaustive {
		m.Exhaustive = false
	}
	m.CapNotes = append(m.CapNotes, st.CapNotes...)
	for k, v := range st.Skipped {
		m.Skipped[k] += v
	}
	for k, v := range st.Counters {
		m.Counters[k] += v
	}
	for k, v := range st.SigCounts {
		m.SigCounts[k] += v
	}
	for _, s := range st.Samples {
		if len(m.Samples) < 6 {
			m.Samples = append(m.Samples, s)
		}
	}
	seen := map[string]int{}
	for _, v := range m.Violations {
		seen[v.Sig]++
	}
	for _, v := range st.Violations {
		if seen[v.Sig] < 2 && len(m.Violations) < 60 {
			seen[v.Sig]++
			m.Violations = append(m.Violations, v)
		}
	}
}

// RunReplay re-executes the violation stored in a replay file.
func RunReplay(path string) int {
	b, err := os.ReadFile(path)
	if err != nil {
		fmt.Fprintln(os.Stderr, err)
		return 2
	}
	var r struct {
		Property  string    `json:"property"`
		Tier      string    `json:"tier"`
		Violation Violation `json:"violation"`
	}
	if err := json.Unmarshal(b, &r); err != nil {
		fmt.Fprintln(os.Stderr, err)
		return 2
	}
	ck := registry[r.Property]
	if ck == nil {
		fmt.Fprintln(os.Stderr, "unknown property", r.Property)
		return 2
	}
	name, _ := r.Violation.Detail["phase"].(string)
	for _, ph := range ck.Phases(r.Tier) {
		if ph.Name != name {
			continue
		}
		var vs []Violation
		if strings.Contains(r.Violation.Sig, ":operation-does-not-return[") {
			self, _ := os.Executable()
			sp := &loneSpec{Phase: name, Prefix: r.Violation.Choices}
			if _, isBFS := r.Violation.Detail["trace_ops"]; isBFS {
				sp.BFS = true
				if a, ok := r.Violation.Detail["trace_init"].([]any); ok {
					for _, x := range a {
						sp.Init = append(sp.Init, fmt.Sprint(x))
					}
				}
				if a, ok := r.Violation.Detail["trace_ops"].([]any); ok {
					for _, x := range a {
						if f, ok := x.(float64); ok {
							sp.Ops = append(sp.Ops, int(f))
						}
					}
				}
			}
			if how := decideLone(self, r.Property, r.Tier, sp); how != "" {
				fmt.Printf("VIOLATION property=%s replay=%s\n  sig=%s\n  detail=the execution did not return when run alone in a fresh process (%s)\n", r.Property, path, r.Violation.Sig, how)
				return 1
			}
			fmt.Printf("replay of %s: the execution returns on the current tree\n", path)
			return 0
		}
		if ph.Body != nil {
			ex := NewExplorer(r.Property, ph.Body, ph.Bounds, 0, 1, 1)
			runs := 2
			if ph.Stateful {
				runs = 1
			}
			vs, _ = ex.Replay(r.Violation.Choices, r.Violation.Labels, runs)
		} else if ph.ReplayCustom != nil {
			vs = ph.ReplayCustom(r.Violation)
		}
		for _, v := range vs {
			if v.Sig == r.Violation.Sig {
				d, _ := json.Marshal(v.Detail)
				fmt.Printf("VIOLATION property=%s replay=%s\n  sig=%s\n  detail=%s\n", r.Property, path, v.Sig, trunc(string(d), 3000))
				return 1
			}
		}
		fmt.Printf("replay of %s: violation %s not reproduced on the current tree\n", path, r.Violation.Sig)
		return 0
	}
	fmt.Fprintln(os.Stderr, "phase not found:", name)
	return 2
}
