package engine

import _ "unsafe"

// The two variables below live in the patched runtime (see
// /verif/tools/mkoverlay.py). All verification binaries are built with the
// runtime overlay; a build without it fails to link, which is intended.

//go:linkname rtMapIterHook runtime.verifMapIterHook
var rtMapIterHook func(count int, B uint8) uint64

//go:linkname rtHashSeed runtime.verifHashSeed
var rtHashSeed uint32

var mapCtx *Ctx
var inHook bool

func setMapCtx(c *Ctx) { mapCtx = c }

// MaxMapStarts caps the number of alternatives offered at one map iteration.
const MaxMapStarts = 64

func mapIterHook(count int, B uint8) uint64 {
	c := mapCtx
	if c == nil || !c.mapOn || inHook || count < 2 {
		return 0
	}
	inHook = true
	defer func() { inHook = false }()
	c.mapSeen++
	if B == 0 {
		// one bucket of 8 slots: the start offset is the only freedom
		return uint64(c.Choose(Env, "mapiter", 8))
	}
	total := 8 << B
	cap := MaxMapStarts
	if c.mapCap > 0 {
		cap = c.mapCap
	}
	if total <= cap {
		v := c.Choose(Env, "mapiter", total)
		// r & mask = start bucket, (r >> B) & 7 = offset
		return uint64(v)
	}
	// large map: a fixed menu of MaxMapStarts starts (every k-th bucket x 8 offsets)
	c.ex.Stats.Counters["mapiter_capped_points"]++
	v := c.Choose(Env, "mapiter-capped", cap)
	nb := 1 << B
	step := nb / (cap / 8)
	bucket := (v / 8) * step
	off := v % 8
	return uint64(bucket) | uint64(off)<<B
}

func init() { rtMapIterHook = mapIterHook }

// EnvMaps switches exploration of map-iteration starts on or off; a harness
// turns it on around the library call under test only, so that the reference
// model's own maps always iterate from the default start.
func (c *Ctx) EnvMaps(on bool) { c.mapOn = on }

// MapPointsSeen is the number of map iterations (over >= 2 entries) met so far
// in this execution while EnvMaps was on.
func (c *Ctx) MapPointsSeen() int { return c.mapSeen }

// SetHashSeed changes the hash seed given to maps created from now on.
func SetHashSeed(s uint32) { rtHashSeed = s }

// SetMapStartCap sets the number of alternative starts offered for maps too
// large to enumerate completely (a multiple of 8; default MaxMapStarts).
func (c *Ctx) SetMapStartCap(n int) {
	if n < 8 {
		n = 8
	}
	c.mapCap = n - n%8
}
