// Package engine holds the model-checking engines: E1, a stateless
// deviation-bounded explorer of the choice tree of a closed harness; E2, an
// explicit-state breadth-first search over an operation machine; and the
// evidence / replay / known-finding plumbing they share.
package engine

import (
	"encoding/json"
	"fmt"
	"hash/fnv"
	"math"
	"sort"
	"strings"
	"time"
)

// Kind classifies a choice point.
type Kind uint8

const (
	// Input choices pick a value from a finite input alphabet.
	Input Kind = iota
	// Env choices are answers of the environment (map iteration start); the
	// default answer is 0 and every other answer is a deviation.
	Env
	// Sched choices pick the next thread to run; choice 0 is "keep running
	// the current thread if it is enabled".
	Sched
)

type point struct {
	kind  Kind
	label string
	n     int
	c     int
}

// Bounds limit which executions are enumerated.
type Bounds struct {
	EnvDev   int // max non-default Env/Sched choices per execution (<0: unbounded)
	InputDev int // max non-default Input choices per execution (<0: full product)
}

// Violation is one failed execution.
type Violation struct {
	Property string         `json:"property"`
	Sig      string         `json:"sig"`    // call site + failure class; known findings match on this
	Detail   map[string]any `json:"detail"` // decoded inputs, expected, got
	Choices  []int          `json:"choices"`
	Labels   []string       `json:"labels,omitempty"`
}

type skipExec struct{ shard bool }

// Ctx is handed to a harness body for one execution.
type Ctx struct {
	ex     *Explorer
	prefix []int
	trace  []point
	viol   []Violation
	obs    strings.Builder
	logObs bool
	// MapIter is set by harness bodies around library calls whose map
	// iteration starts are to be explored (see envmap.go).
	mapOn   bool
	mapCap  int
	mapSeen int
}

// Choose returns a value in [0,n). It replays the prefix, then answers 0.
func (c *Ctx) Choose(kind Kind, label string, n int) int {
	if n <= 0 {
		panic(fmt.Sprintf("engine: Choose(%s) with n=%d", label, n))
	}
	i := len(c.trace)
	v := 0
	if i < len(c.prefix) {
		v = c.prefix[i]
		if v >= n {
			panic(fmt.Sprintf("engine: replay divergence at point %d (%s): recorded choice %d but arity now %d — nondeterminism not owned", i, label, v, n))
		}
		if c.ex.replayLabels != nil && i < len(c.ex.replayLabels) && c.ex.replayLabels[i] != label {
			panic(fmt.Sprintf("engine: replay divergence at point %d: recorded label %q, now %q", i, c.ex.replayLabels[i], label))
		}
	}
	c.trace = append(c.trace, point{kind, label, n, v})
	if i == c.ex.shardDepth-1 && c.ex.nshards > 1 {
		idx := 0
		for _, p := range c.trace {
			idx = idx*p.n + p.c
		}
		if idx%c.ex.nshards != c.ex.shard {
			panic(skipExec{shard: true})
		}
	}
	return v
}

// Prefix returns the choices this execution is replaying (used by harnesses that run
// the execution itself in a fresh process and then re-declare its choice points).
func (c *Ctx) Prefix() []int { return append([]int(nil), c.prefix...) }

// OneExec is the outcome of a single execution run by RunOne.
type OneExec struct {
	Kinds      []int            `json:"kinds"`
	Labels     []string         `json:"labels"`
	Arities    []int            `json:"arities"`
	Choices    []int            `json:"choices"`
	Violations []Violation      `json:"violations"`
	Counters   map[string]int64 `json:"counters"`
	Obs        string           `json:"obs"`
	Nontrivial []string         `json:"nontrivial"`
	Skipped    bool             `json:"skipped"`
	Panic      string           `json:"panic"`
}

// RunOne executes body exactly once with the given choice prefix and returns its trace and verdicts.
func RunOne(property string, body func(*Ctx), prefix []int) OneExec {
	e := NewExplorer(property, body, Bounds{EnvDev: -1, InputDev: -1}, 0, 1, 1)
	e.captureKeys = true
	r := e.run(prefix, true)
	o := OneExec{Violations: r.viol, Counters: e.Stats.Counters, Obs: r.obs, Skipped: r.skipped, Nontrivial: e.keys}
	for _, p := range r.trace {
		o.Kinds = append(o.Kinds, int(p.kind))
		o.Labels = append(o.Labels, p.label)
		o.Arities = append(o.Arities, p.n)
		o.Choices = append(o.Choices, p.c)
	}
	if r.panicV != nil {
		o.Panic = fmt.Sprint(r.panicV)
	}
	for i := range o.Violations {
		o.Violations[i].Detail = SanitizeDetail(o.Violations[i].Detail)
	}
	return o
}

// In picks one element index of an input alphabet of size n.
func (c *Ctx) In(label string, n int) int { return c.Choose(Input, label, n) }

// Skip abandons this execution without verdict (over-budget case etc.).
func (c *Ctx) Skip(reason string) {
	c.ex.Stats.Skipped[reason]++
	panic(skipExec{})
}

// Violation records a property violation for this execution.
func (c *Ctx) Violation(sig string, detail map[string]any) {
	c.viol = append(c.viol, Violation{Property: c.ex.Property, Sig: sig, Detail: SanitizeDetail(detail)})
}

// SanitizeDetail returns a copy of a detail map that encoding/json can always
// encode (non-finite floats and unsupported values become strings), so that a
// violation can never be lost on its way from a worker to the coordinator.
func SanitizeDetail(d map[string]any) map[string]any {
	out := make(map[string]any, len(d))
	for k, v := range d {
		out[k] = sanitizeValue(v)
	}
	return out
}

func sanitizeValue(v any) any {
	switch t := v.(type) {
	case float64:
		if math.IsInf(t, 0) || math.IsNaN(t) {
			return fmt.Sprint(t)
		}
		return t
	case float32:
		return sanitizeValue(float64(t))
	case map[string]any:
		return SanitizeDetail(t)
	case []any:
		r := make([]any, len(t))
		for i := range t {
			r[i] = sanitizeValue(t[i])
		}
		return r
	case []float64:
		r := make([]any, len(t))
		for i := range t {
			r[i] = sanitizeValue(t[i])
		}
		return r
	case [3]float64:
		return sanitizeValue(t[:])
	case [2]float64:
		return sanitizeValue(t[:])
	case nil, string, bool, int, int64, int32, uint64, []string, []int64, []int:
		return t
	}
	if _, err := json.Marshal(v); err != nil {
		return fmt.Sprint(v)
	}
	return v
}

// Observe appends to the per-execution observation log (used by the
// determinism self-check and by replay confirmation).
func (c *Ctx) Observe(format string, a ...any) {
	if c.logObs {
		fmt.Fprintf(&c.obs, format, a...)
		c.obs.WriteByte('\n')
	}
}

// Observing reports whether observations are being recorded (lets harnesses
// avoid building expensive strings otherwise).
func (c *Ctx) Observing() bool { return c.logObs }

// Outcome records a distinct observed outcome (hashed).
func (c *Ctx) Outcome(key string) { c.ex.Stats.outcome(key) }

// Nontrivial records a distinct non-trivial case (hashed).
func (c *Ctx) Nontrivial(key string) {
	c.ex.Stats.nontrivial(key)
	if c.ex.captureKeys {
		c.ex.keys = append(c.ex.keys, key)
	}
}

// Count bumps a named counter.
func (c *Ctx) Count(name string) { c.ex.Stats.Counters[name]++ }

// CountN adds to a named counter.
func (c *Ctx) CountN(name string, n int64) { c.ex.Stats.Counters[name] += n }

// NotExhaustive records that something inside the bound was not covered by this execution
// (the note is kept once).
func (c *Ctx) NotExhaustive(note string) {
	st := c.ex.Stats
	st.Exhaustive = false
	for _, n := range st.CapNotes {
		if n == note {
			return
		}
	}
	st.CapNotes = append(st.CapNotes, note)
}

// Sample offers a sample case; the first few per run are kept.
func (c *Ctx) Sample(v any) {
	if len(c.ex.Stats.Samples) < c.ex.maxSamples {
		c.ex.Stats.Samples = append(c.ex.Stats.Samples, v)
	}
}

// WantSample reports whether another sample would be kept.
func (c *Ctx) WantSample() bool { return len(c.ex.Stats.Samples) < c.ex.maxSamples }

// Stats is what a run measured.
type Stats struct {
	Executions    int64               `json:"executions"`
	States        int64               `json:"states"`      // distinct choice-tree nodes / BFS states
	Transitions   int64               `json:"transitions"` // choice edges taken / BFS transitions
	Validated     int64               `json:"validated"`   // executions or transitions compared with the reference
	ChoicePoints  map[string]int64    `json:"choice_points"`
	EnvPoints     int64               `json:"env_points"`
	MaxDepth      int                 `json:"max_depth"`
	Skipped       map[string]int64    `json:"skipped"`
	Counters      map[string]int64    `json:"counters"`
	Outcomes      map[uint64]struct{} `json:"-"`
	Nontriv       map[uint64]struct{} `json:"-"`
	OutcomeN      int64               `json:"distinct_outcomes"`
	NontrivN      int64               `json:"distinct_nontrivial"`
	Samples       []any               `json:"samples"`
	Exhaustive    bool                `json:"exhaustive"`
	CapNotes      []string            `json:"cap_notes"`
	SelfCheckRuns int64               `json:"selfcheck_runs"`
	Violations    []Violation         `json:"violations"`
	ViolationN    int64               `json:"violation_count"`
	SigCounts     map[string]int64    `json:"sig_counts"`
}

const hashCap = 4 << 20

func newStats() *Stats {
	return &Stats{ChoicePoints: map[string]int64{}, Skipped: map[string]int64{}, Counters: map[string]int64{},
		Outcomes: map[uint64]struct{}{}, Nontriv: map[uint64]struct{}{}, SigCounts: map[string]int64{}, Exhaustive: true}
}

// NewStats returns an empty Stats (for engines outside this file).
func NewStats() *Stats { return newStats() }

func h64(s string) uint64 {
	h := fnv.New64a()
	h.Write([]byte(s))
	return h.Sum64()
}

func (s *Stats) outcome(key string) {
	if len(s.Outcomes) < hashCap {
		s.Outcomes[h64(key)] = struct{}{}
	}
}
func (s *Stats) nontrivial(key string) {
	if len(s.Nontriv) < hashCap {
		s.Nontriv[h64(key)] = struct{}{}
	}
}

// AddOutcome / AddNontrivial are the exported forms for other engines.
func (s *Stats) AddOutcome(key string)    { s.outcome(key) }
func (s *Stats) AddNontrivial(key string) { s.nontrivial(key) }

// Explorer enumerates the executions of one harness body.
type Explorer struct {
	Property     string
	Body         func(*Ctx)
	Bounds       Bounds
	Stats        *Stats
	Deadline     time.Time
	shard        int
	nshards      int
	shardDepth   int
	maxSamples   int
	maxViol      int
	replayLabels []string
	selfCheck    int
	// Repass is the number of initial executions that are judged a second time at the end of the phase.
	Repass      int
	firstRuns   [][]int
	captureKeys bool
	keys        []string
	// ExtremesOnly enumerates only the first and last element at every Input choice point.
	ExtremesOnly bool
	// MaxExec stops the enumeration after this many executions (0 = no limit); hitting it is a cap.
	MaxExec int64
}

// NewExplorer builds an explorer. shard/nshards select a slice of the tree:
// executions are partitioned on the linear index of their first shardDepth
// choices.
func NewExplorer(property string, body func(*Ctx), b Bounds, shard, nshards, shardDepth int) *Explorer {
	if nshards < 1 {
		nshards = 1
	}
	if shardDepth < 1 {
		shardDepth = 1
	}
	return &Explorer{Property: property, Body: body, Bounds: b, Stats: newStats(), shard: shard, nshards: nshards,
		shardDepth: shardDepth, maxSamples: 6, maxViol: 40, selfCheck: 300, Repass: 500}
}

type execResult struct {
	trace     []point
	viol      []Violation
	obs       string
	skipped   bool
	shardSkip bool
	panicV    any
}

// run executes the body once with the given prefix.
func (e *Explorer) run(prefix []int, logObs bool) (res execResult) {
	c := &Ctx{ex: e, prefix: prefix, logObs: logObs}
	defer func() {
		setMapCtx(nil)
		if r := recover(); r != nil {
			if sk, ok := r.(skipExec); ok {
				res = execResult{trace: c.trace, skipped: true, shardSkip: sk.shard}
				return
			}
			res = execResult{trace: c.trace, viol: c.viol, obs: c.obs.String(), panicV: r}
			return
		}
	}()
	setMapCtx(c)
	progressStart(prefix)
	defer progressEnd()
	e.Body(c)
	setMapCtx(nil)
	return execResult{trace: c.trace, viol: c.viol, obs: c.obs.String()}
}

func devCount(tr []point, upto int) (env, in int) {
	for i := 0; i < upto; i++ {
		if tr[i].c != 0 {
			if tr[i].kind == Input {
				in++
			} else {
				env++
			}
		}
	}
	return
}

// next computes the next prefix in depth-first order, or nil when done.
// It also returns the position that was incremented.
func (e *Explorer) next(tr []point) ([]int, int) {
	for i := len(tr) - 1; i >= 0; i-- {
		p := tr[i]
		if p.c+1 >= p.n {
			continue
		}
		step := 1
		if e.ExtremesOnly && p.kind == Input {
			// cross-section mode: only the first and the last element of every input alphabet
			step = p.n - 1 - p.c
		}
		if p.c == 0 { // incrementing creates a new deviation at i
			env, in := devCount(tr, i)
			if p.kind == Input {
				if e.Bounds.InputDev >= 0 && in+1 > e.Bounds.InputDev {
					continue
				}
			} else {
				if e.Bounds.EnvDev >= 0 && env+1 > e.Bounds.EnvDev {
					continue
				}
			}
		}
		np := make([]int, i+1)
		for j := 0; j < i; j++ {
			np[j] = tr[j].c
		}
		np[i] = p.c + step
		return np, i
	}
	return nil, -1
}

// Explore runs the enumeration to completion (or deadline).
func (e *Explorer) Explore() {
	st := e.Stats
	st.States = 1
	prefix := []int{}
	newFrom := 0
	var checked int
	for {
		if !e.Deadline.IsZero() && st.Executions%256 == 0 && time.Now().After(e.Deadline) {
			st.Exhaustive = false
			pf := fmt.Sprint(prefix)
			if len(pf) > 120 {
				pf = pf[:120] + "…"
			}
			st.CapNotes = append(st.CapNotes, fmt.Sprintf("deadline hit after %d executions; next prefix %s", st.Executions, pf))
			break
		}
		if e.MaxExec > 0 && st.Executions >= e.MaxExec {
			st.Exhaustive = false
			st.CapNotes = append(st.CapNotes, fmt.Sprintf("execution cap %d hit", e.MaxExec))
			break
		}
		doSelf := checked < e.selfCheck
		res := e.run(prefix, doSelf)
		if res.panicV != nil {
			if s, ok := res.panicV.(string); ok && strings.HasPrefix(s, "engine:") {
				panic(s)
			}
			res.viol = append(res.viol, Violation{Property: e.Property, Sig: "harness-uncaught-panic",
				Detail: map[string]any{"panic": fmt.Sprint(res.panicV)}})
		}
		if len(res.trace) < len(prefix) {
			panic(fmt.Sprintf("engine: replay divergence: execution ended after %d points, prefix has %d", len(res.trace), len(prefix)))
		}
		if !res.skipped {
			st.Executions++
			st.Validated++
			if doSelf && len(st.Samples) < 2 && res.obs != "" {
				// an actual explored case, written out: its choice list, the labels of the choice points and what was observed
				o := res.obs
				if len(o) > 400 {
					o = o[:400] + "…"
				}
				st.Samples = append(st.Samples, map[string]any{"choices": choicesOf(res.trace), "choice_labels": labelsOf(res.trace), "observed": strings.TrimSpace(o)})
			}
			if doSelf {
				checked++
				ch := choicesOf(res.trace)
				// the re-run must not count twice: give it throw-away statistics
				e.Stats = newStats()
				r2 := e.run(ch, true)
				e.Stats = st
				st.SelfCheckRuns++
				if len(r2.trace) != len(res.trace) {
					panic(fmt.Sprintf("engine: self-check failed: execution %v not reproducible (different choice points)\n--- first\n%s\n--- second\n%s", ch, res.obs, r2.obs))
				}
				if r2.obs != res.obs || len(r2.viol) != len(res.viol) {
					// The same choices gave a different observation the second time: the code under test carries
					// state from call to call (all harness nondeterminism is owned). The oracle still judges every
					// execution, including this re-run; the determinism self-check is switched off for the rest of
					// the phase and the run is marked non-exhaustive.
					st.Counters["selfcheck_mismatch"]++
					st.Exhaustive = false
					st.CapNotes = append(st.CapNotes, fmt.Sprintf("execution %v gave a different observation when repeated in the same process: executions are not independent; continuing without the self-check", ch))
					e.selfCheck = 0
					have := map[string]bool{}
					for _, v := range res.viol {
						have[v.Sig] = true
					}
					for _, v := range r2.viol {
						if !have[v.Sig] {
							if v.Detail == nil {
								v.Detail = map[string]any{}
							}
							v.Detail["found_on"] = "immediate repetition of the same execution in the same process"
							res.viol = append(res.viol, v)
						}
					}
				}
			}
		}
		if len(res.trace) > st.MaxDepth {
			st.MaxDepth = len(res.trace)
		}
		if !res.shardSkip {
			st.States += int64(len(res.trace) - newFrom)
			st.Transitions += int64(len(res.trace) - newFrom)
			for i := newFrom; i < len(res.trace); i++ {
				p := res.trace[i]
				if p.kind != Input {
					st.EnvPoints++
				}
			}
		}
		for _, v := range res.viol {
			st.ViolationN++
			st.SigCounts[v.Sig]++
			if st.SigCounts[v.Sig] <= 3 && len(st.Violations) < e.maxViol {
				v.Choices = choicesOf(res.trace)
				v.Labels = labelsOf(res.trace)
				st.Violations = append(st.Violations, v)
				journalViolation(v)
			}
		}
		if !res.skipped && len(e.firstRuns) < e.Repass {
			e.firstRuns = append(e.firstRuns, choicesOf(res.trace))
		}
		np, pos := e.next(res.trace)
		if np == nil {
			break
		}
		prefix = np
		newFrom = pos
	}
	// second pass: re-judge the first executions now that everything else has run in this process.
	// The functions under test are supposed to be pure; a result that changes with the calls made in
	// between (a cache with colliding keys, a reused buffer) shows up here with the ordinary oracle.
	if e.Repass > 0 && st.Exhaustive {
		saveStats := e.Stats
		for _, ch := range e.firstRuns {
			e.Stats = newStats()
			res := e.run(ch, false)
			e.Stats = saveStats
			if res.skipped {
				continue
			}
			st.Counters["rejudged_after_history"]++
			for _, v := range res.viol {
				st.ViolationN++
				st.SigCounts[v.Sig]++
				if st.SigCounts[v.Sig] <= 3 && len(st.Violations) < e.maxViol {
					v.Choices = ch
					v.Labels = labelsOf(res.trace)
					if v.Detail == nil {
						v.Detail = map[string]any{}
					}
					v.Detail["found_on"] = "second pass (re-judged after the other executions of this process)"
					st.Violations = append(st.Violations, v)
				}
			}
		}
	}
	st.OutcomeN = int64(len(st.Outcomes))
	st.NontrivN = int64(len(st.Nontriv))
}

func choicesOf(tr []point) []int {
	r := make([]int, len(tr))
	for i, p := range tr {
		r[i] = p.c
	}
	return r
}
func labelsOf(tr []point) []string {
	r := make([]string, len(tr))
	for i, p := range tr {
		r[i] = p.label
	}
	return r
}

// Replay runs one recorded choice list n times and returns the violations of
// the first run; it panics (engine:) if the runs differ.
func (e *Explorer) Replay(choices []int, labels []string, n int) ([]Violation, string) {
	save := e.nshards
	e.nshards = 1
	e.replayLabels = labels
	defer func() { e.nshards = save; e.replayLabels = nil }()
	var first execResult
	for i := 0; i < n; i++ {
		r := e.run(choices, true)
		if r.panicV != nil {
			if s, ok := r.panicV.(string); ok && strings.HasPrefix(s, "engine:") {
				panic(s)
			}
			r.viol = append(r.viol, Violation{Property: e.Property, Sig: "harness-uncaught-panic",
				Detail: map[string]any{"panic": fmt.Sprint(r.panicV)}})
		}
		if i == 0 {
			first = r
			continue
		}
		if r.obs != first.obs || sigs(r.viol) != sigs(first.viol) {
			panic(fmt.Sprintf("engine: replay of %v not reproducible (run %d differs)", choices, i))
		}
	}
	for i := range first.viol {
		first.viol[i].Choices = choices
		first.viol[i].Labels = labelsOf(first.trace)
	}
	return first.viol, first.obs
}

func sigs(v []Violation) string {
	s := make([]string, len(v))
	for i := range v {
		s[i] = v[i].Sig
	}
	sort.Strings(s)
	return strings.Join(s, "|")
}
