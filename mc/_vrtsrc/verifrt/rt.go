// Package verifrt is the run-time seam between instrumented library code and
// the interleaving explorer. It exists only in verification builds: the
// overlay maps it into the library's module as a virtual package.
package verifrt

import "unsafe"

// Scheduler receives every instrumented event. All methods are called on the
// goroutine of the thread that performs the operation and may block it
// cooperatively.
type Scheduler interface {
	// Access is called before a statement that reads or writes a package-level variable.
	Access(id string, write bool)
	// Lock blocks until the lock at addr can be taken (kind: 0 exclusive, 1 shared).
	Lock(addr unsafe.Pointer, kind int)
	Unlock(addr unsafe.Pointer, kind int)
	// OnceEnter returns true if the caller must run the function and then call OnceDone.
	OnceEnter(addr unsafe.Pointer) bool
	OnceDone(addr unsafe.Pointer)
	// Atomic is called before an atomic operation on addr.
	Atomic(addr unsafe.Pointer, write bool)
	// Unsupported reports a concurrency construct the explorer does not model.
	Unsupported(what string)
}

// S is the active scheduler (nil outside explored executions: the shims then
// fall back to the real sync primitives).
var S Scheduler

// Access is inserted by the instrumenter.
func Access(id string, write bool) {
	if s := S; s != nil {
		s.Access(id, write)
	}
}

// Unsupported is inserted by the instrumenter before go statements, channel
// operations and select statements in library code.
func Unsupported(what string) {
	if s := S; s != nil {
		s.Unsupported(what)
	}
}
