// Package vsync replaces "sync" in instrumented library code: every
// operation is a scheduling point and a happens-before edge for the
// interleaving explorer, and falls back to the real primitive when no
// explorer is active.
package vsync

import (
	"sync"
	"unsafe"

	"github.com/trajectoryjp/spatial_id_go/v4/verifrt"
)

type Locker = sync.Locker

type Mutex struct{ real sync.Mutex }

func (m *Mutex) Lock() {
	if s := verifrt.S; s != nil {
		s.Lock(unsafe.Pointer(m), 0)
		return
	}
	m.real.Lock()
}
func (m *Mutex) Unlock() {
	if s := verifrt.S; s != nil {
		s.Unlock(unsafe.Pointer(m), 0)
		return
	}
	m.real.Unlock()
}
func (m *Mutex) TryLock() bool {
	if s := verifrt.S; s != nil {
		s.Unsupported("Mutex.TryLock")
		s.Lock(unsafe.Pointer(m), 0)
		return true
	}
	return m.real.TryLock()
}

type RWMutex struct{ real sync.RWMutex }

func (m *RWMutex) Lock() {
	if s := verifrt.S; s != nil {
		s.Lock(unsafe.Pointer(m), 0)
		return
	}
	m.real.Lock()
}
func (m *RWMutex) Unlock() {
	if s := verifrt.S; s != nil {
		s.Unlock(unsafe.Pointer(m), 0)
		return
	}
	m.real.Unlock()
}
func (m *RWMutex) RLock() {
	if s := verifrt.S; s != nil {
		s.Lock(unsafe.Pointer(m), 1)
		return
	}
	m.real.RLock()
}
func (m *RWMutex) RUnlock() {
	if s := verifrt.S; s != nil {
		s.Unlock(unsafe.Pointer(m), 1)
		return
	}
	m.real.RUnlock()
}

type Once struct {
	real sync.Once
	done bool
}

func (o *Once) Do(f func()) {
	if s := verifrt.S; s != nil {
		if s.OnceEnter(unsafe.Pointer(o)) {
			defer s.OnceDone(unsafe.Pointer(o))
			f()
		}
		return
	}
	o.real.Do(f)
}

// Map, Pool: every operation is modelled as one atomic step on the object.
type Map struct{ real sync.Map }

func (m *Map) pt(w bool) {
	if s := verifrt.S; s != nil {
		s.Atomic(unsafe.Pointer(m), w)
	}
}
func (m *Map) Load(k any) (any, bool)           { m.pt(false); return m.real.Load(k) }
func (m *Map) Store(k, v any)                   { m.pt(true); m.real.Store(k, v) }
func (m *Map) LoadOrStore(k, v any) (any, bool) { m.pt(true); return m.real.LoadOrStore(k, v) }
func (m *Map) LoadAndDelete(k any) (any, bool)  { m.pt(true); return m.real.LoadAndDelete(k) }
func (m *Map) Delete(k any)                     { m.pt(true); m.real.Delete(k) }
func (m *Map) Swap(k, v any) (any, bool)        { m.pt(true); return m.real.Swap(k, v) }
func (m *Map) CompareAndSwap(k, o, n any) bool  { m.pt(true); return m.real.CompareAndSwap(k, o, n) }
func (m *Map) CompareAndDelete(k, o any) bool   { m.pt(true); return m.real.CompareAndDelete(k, o) }
func (m *Map) Range(f func(k, v any) bool)      { m.pt(false); m.real.Range(f) }

type Pool struct {
	New   func() any
	real  sync.Pool
	stack []any // deterministic LIFO used under the explorer: a Put object is the next one handed out
}

func (p *Pool) Get() any {
	if s := verifrt.S; s != nil {
		s.Atomic(unsafe.Pointer(p), true)
		if n := len(p.stack); n > 0 {
			x := p.stack[n-1]
			p.stack = p.stack[:n-1]
			return x
		}
		if p.New != nil {
			return p.New()
		}
		return nil
	}
	p.real.New = p.New
	return p.real.Get()
}
func (p *Pool) Put(x any) {
	if s := verifrt.S; s != nil {
		s.Atomic(unsafe.Pointer(p), true)
		p.stack = append(p.stack, x)
		return
	}
	p.real.Put(x)
}

// WaitGroup and Cond only make sense with goroutines started by the library
// itself, which the explorer does not model.
type WaitGroup struct{ real sync.WaitGroup }

func (w *WaitGroup) Add(n int) { unsupported("WaitGroup"); w.real.Add(n) }
func (w *WaitGroup) Done()     { w.real.Done() }
func (w *WaitGroup) Wait()     { unsupported("WaitGroup"); w.real.Wait() }

type Cond = sync.Cond

func NewCond(l Locker) *Cond { unsupported("Cond"); return sync.NewCond(l) }

func OnceFunc(f func()) func() {
	var o Once
	return func() { o.Do(f) }
}

func unsupported(what string) {
	if s := verifrt.S; s != nil {
		s.Unsupported("sync." + what)
	}
}

// The rest of the package's surface, so that any use of "sync" a maintainer may write compiles.

func (m *RWMutex) TryLock() bool {
	if s := verifrt.S; s != nil {
		s.Unsupported("RWMutex.TryLock")
		s.Lock(unsafe.Pointer(m), 0)
		return true
	}
	return m.real.TryLock()
}
func (m *RWMutex) TryRLock() bool {
	if s := verifrt.S; s != nil {
		s.Unsupported("RWMutex.TryRLock")
		s.Lock(unsafe.Pointer(m), 1)
		return true
	}
	return m.real.TryRLock()
}

type rlocker RWMutex

func (r *rlocker) Lock()   { (*RWMutex)(r).RLock() }
func (r *rlocker) Unlock() { (*RWMutex)(r).RUnlock() }

// RLocker returns a Locker whose Lock and Unlock call RLock and RUnlock.
func (m *RWMutex) RLocker() Locker { return (*rlocker)(m) }

// Clear deletes all entries.
func (m *Map) Clear() { m.pt(true); m.real.Clear() }

// OnceValue returns a function that calls f once and returns its value afterwards.
func OnceValue[T any](f func() T) func() T {
	var o Once
	var r T
	return func() T {
		o.Do(func() { r = f() })
		return r
	}
}

// OnceValues is OnceValue for two results.
func OnceValues[T1, T2 any](f func() (T1, T2)) func() (T1, T2) {
	var o Once
	var r1 T1
	var r2 T2
	return func() (T1, T2) {
		o.Do(func() { r1, r2 = f() })
		return r1, r2
	}
}
