// Package vatomic replaces "sync/atomic" in instrumented library code.
package vatomic

import (
	"sync/atomic"
	"unsafe"

	"github.com/trajectoryjp/spatial_id_go/v4/verifrt"
)

func pt(p unsafe.Pointer, w bool) {
	if s := verifrt.S; s != nil {
		s.Atomic(p, w)
	}
}

func LoadInt32(a *int32) int32         { pt(unsafe.Pointer(a), false); return atomic.LoadInt32(a) }
func LoadInt64(a *int64) int64         { pt(unsafe.Pointer(a), false); return atomic.LoadInt64(a) }
func LoadUint32(a *uint32) uint32      { pt(unsafe.Pointer(a), false); return atomic.LoadUint32(a) }
func LoadUint64(a *uint64) uint64      { pt(unsafe.Pointer(a), false); return atomic.LoadUint64(a) }
func StoreInt32(a *int32, v int32)     { pt(unsafe.Pointer(a), true); atomic.StoreInt32(a, v) }
func StoreInt64(a *int64, v int64)     { pt(unsafe.Pointer(a), true); atomic.StoreInt64(a, v) }
func StoreUint32(a *uint32, v uint32)  { pt(unsafe.Pointer(a), true); atomic.StoreUint32(a, v) }
func StoreUint64(a *uint64, v uint64)  { pt(unsafe.Pointer(a), true); atomic.StoreUint64(a, v) }
func AddInt32(a *int32, d int32) int32 { pt(unsafe.Pointer(a), true); return atomic.AddInt32(a, d) }
func AddInt64(a *int64, d int64) int64 { pt(unsafe.Pointer(a), true); return atomic.AddInt64(a, d) }
func AddUint32(a *uint32, d uint32) uint32 {
	pt(unsafe.Pointer(a), true)
	return atomic.AddUint32(a, d)
}
func AddUint64(a *uint64, d uint64) uint64 {
	pt(unsafe.Pointer(a), true)
	return atomic.AddUint64(a, d)
}
func SwapInt32(a *int32, v int32) int32 { pt(unsafe.Pointer(a), true); return atomic.SwapInt32(a, v) }
func SwapInt64(a *int64, v int64) int64 { pt(unsafe.Pointer(a), true); return atomic.SwapInt64(a, v) }
func CompareAndSwapInt32(a *int32, o, n int32) bool {
	pt(unsafe.Pointer(a), true)
	return atomic.CompareAndSwapInt32(a, o, n)
}
func CompareAndSwapInt64(a *int64, o, n int64) bool {
	pt(unsafe.Pointer(a), true)
	return atomic.CompareAndSwapInt64(a, o, n)
}
func CompareAndSwapUint32(a *uint32, o, n uint32) bool {
	pt(unsafe.Pointer(a), true)
	return atomic.CompareAndSwapUint32(a, o, n)
}
func CompareAndSwapUint64(a *uint64, o, n uint64) bool {
	pt(unsafe.Pointer(a), true)
	return atomic.CompareAndSwapUint64(a, o, n)
}

type Int32 struct{ v atomic.Int32 }

func (x *Int32) Load() int32        { pt(unsafe.Pointer(x), false); return x.v.Load() }
func (x *Int32) Store(v int32)      { pt(unsafe.Pointer(x), true); x.v.Store(v) }
func (x *Int32) Add(d int32) int32  { pt(unsafe.Pointer(x), true); return x.v.Add(d) }
func (x *Int32) Swap(v int32) int32 { pt(unsafe.Pointer(x), true); return x.v.Swap(v) }
func (x *Int32) CompareAndSwap(o, n int32) bool {
	pt(unsafe.Pointer(x), true)
	return x.v.CompareAndSwap(o, n)
}

type Int64 struct{ v atomic.Int64 }

func (x *Int64) Load() int64        { pt(unsafe.Pointer(x), false); return x.v.Load() }
func (x *Int64) Store(v int64)      { pt(unsafe.Pointer(x), true); x.v.Store(v) }
func (x *Int64) Add(d int64) int64  { pt(unsafe.Pointer(x), true); return x.v.Add(d) }
func (x *Int64) Swap(v int64) int64 { pt(unsafe.Pointer(x), true); return x.v.Swap(v) }
func (x *Int64) CompareAndSwap(o, n int64) bool {
	pt(unsafe.Pointer(x), true)
	return x.v.CompareAndSwap(o, n)
}

type Uint64 struct{ v atomic.Uint64 }

func (x *Uint64) Load() uint64        { pt(unsafe.Pointer(x), false); return x.v.Load() }
func (x *Uint64) Store(v uint64)      { pt(unsafe.Pointer(x), true); x.v.Store(v) }
func (x *Uint64) Add(d uint64) uint64 { pt(unsafe.Pointer(x), true); return x.v.Add(d) }
func (x *Uint64) CompareAndSwap(o, n uint64) bool {
	pt(unsafe.Pointer(x), true)
	return x.v.CompareAndSwap(o, n)
}

type Bool struct{ v atomic.Bool }

func (x *Bool) Load() bool       { pt(unsafe.Pointer(x), false); return x.v.Load() }
func (x *Bool) Store(v bool)     { pt(unsafe.Pointer(x), true); x.v.Store(v) }
func (x *Bool) Swap(v bool) bool { pt(unsafe.Pointer(x), true); return x.v.Swap(v) }
func (x *Bool) CompareAndSwap(o, n bool) bool {
	pt(unsafe.Pointer(x), true)
	return x.v.CompareAndSwap(o, n)
}

type Value struct{ v atomic.Value }

func (x *Value) Load() any      { pt(unsafe.Pointer(x), false); return x.v.Load() }
func (x *Value) Store(v any)    { pt(unsafe.Pointer(x), true); x.v.Store(v) }
func (x *Value) Swap(v any) any { pt(unsafe.Pointer(x), true); return x.v.Swap(v) }
func (x *Value) CompareAndSwap(o, n any) bool {
	pt(unsafe.Pointer(x), true)
	return x.v.CompareAndSwap(o, n)
}

type Pointer[T any] struct{ v atomic.Pointer[T] }

func (x *Pointer[T]) Load() *T     { pt(unsafe.Pointer(x), false); return x.v.Load() }
func (x *Pointer[T]) Store(v *T)   { pt(unsafe.Pointer(x), true); x.v.Store(v) }
func (x *Pointer[T]) Swap(v *T) *T { pt(unsafe.Pointer(x), true); return x.v.Swap(v) }
func (x *Pointer[T]) CompareAndSwap(o, n *T) bool {
	pt(unsafe.Pointer(x), true)
	return x.v.CompareAndSwap(o, n)
}

// The rest of the package's surface, so that any use of "sync/atomic" a maintainer may write compiles.

func LoadUintptr(a *uintptr) uintptr { pt(unsafe.Pointer(a), false); return atomic.LoadUintptr(a) }
func LoadPointer(a *unsafe.Pointer) unsafe.Pointer {
	pt(unsafe.Pointer(a), false)
	return atomic.LoadPointer(a)
}
func StoreUintptr(a *uintptr, v uintptr) { pt(unsafe.Pointer(a), true); atomic.StoreUintptr(a, v) }
func StorePointer(a *unsafe.Pointer, v unsafe.Pointer) {
	pt(unsafe.Pointer(a), true)
	atomic.StorePointer(a, v)
}
func AddUintptr(a *uintptr, d uintptr) uintptr {
	pt(unsafe.Pointer(a), true)
	return atomic.AddUintptr(a, d)
}
func SwapUint32(a *uint32, v uint32) uint32 {
	pt(unsafe.Pointer(a), true)
	return atomic.SwapUint32(a, v)
}
func SwapUint64(a *uint64, v uint64) uint64 {
	pt(unsafe.Pointer(a), true)
	return atomic.SwapUint64(a, v)
}
func SwapUintptr(a *uintptr, v uintptr) uintptr {
	pt(unsafe.Pointer(a), true)
	return atomic.SwapUintptr(a, v)
}
func SwapPointer(a *unsafe.Pointer, v unsafe.Pointer) unsafe.Pointer {
	pt(unsafe.Pointer(a), true)
	return atomic.SwapPointer(a, v)
}
func CompareAndSwapUintptr(a *uintptr, o, n uintptr) bool {
	pt(unsafe.Pointer(a), true)
	return atomic.CompareAndSwapUintptr(a, o, n)
}
func CompareAndSwapPointer(a *unsafe.Pointer, o, n unsafe.Pointer) bool {
	pt(unsafe.Pointer(a), true)
	return atomic.CompareAndSwapPointer(a, o, n)
}
func AndInt32(a *int32, m int32) int32 { pt(unsafe.Pointer(a), true); return atomic.AndInt32(a, m) }
func AndUint32(a *uint32, m uint32) uint32 {
	pt(unsafe.Pointer(a), true)
	return atomic.AndUint32(a, m)
}
func AndInt64(a *int64, m int64) int64 { pt(unsafe.Pointer(a), true); return atomic.AndInt64(a, m) }
func AndUint64(a *uint64, m uint64) uint64 {
	pt(unsafe.Pointer(a), true)
	return atomic.AndUint64(a, m)
}
func AndUintptr(a *uintptr, m uintptr) uintptr {
	pt(unsafe.Pointer(a), true)
	return atomic.AndUintptr(a, m)
}
func OrInt32(a *int32, m int32) int32     { pt(unsafe.Pointer(a), true); return atomic.OrInt32(a, m) }
func OrUint32(a *uint32, m uint32) uint32 { pt(unsafe.Pointer(a), true); return atomic.OrUint32(a, m) }
func OrInt64(a *int64, m int64) int64     { pt(unsafe.Pointer(a), true); return atomic.OrInt64(a, m) }
func OrUint64(a *uint64, m uint64) uint64 { pt(unsafe.Pointer(a), true); return atomic.OrUint64(a, m) }
func OrUintptr(a *uintptr, m uintptr) uintptr {
	pt(unsafe.Pointer(a), true)
	return atomic.OrUintptr(a, m)
}

func (x *Int32) And(m int32) int32     { pt(unsafe.Pointer(x), true); return x.v.And(m) }
func (x *Int32) Or(m int32) int32      { pt(unsafe.Pointer(x), true); return x.v.Or(m) }
func (x *Int64) And(m int64) int64     { pt(unsafe.Pointer(x), true); return x.v.And(m) }
func (x *Int64) Or(m int64) int64      { pt(unsafe.Pointer(x), true); return x.v.Or(m) }
func (x *Uint64) And(m uint64) uint64  { pt(unsafe.Pointer(x), true); return x.v.And(m) }
func (x *Uint64) Or(m uint64) uint64   { pt(unsafe.Pointer(x), true); return x.v.Or(m) }
func (x *Uint64) Swap(v uint64) uint64 { pt(unsafe.Pointer(x), true); return x.v.Swap(v) }

type Uint32 struct{ v atomic.Uint32 }

func (x *Uint32) Load() uint32         { pt(unsafe.Pointer(x), false); return x.v.Load() }
func (x *Uint32) Store(v uint32)       { pt(unsafe.Pointer(x), true); x.v.Store(v) }
func (x *Uint32) Add(d uint32) uint32  { pt(unsafe.Pointer(x), true); return x.v.Add(d) }
func (x *Uint32) Swap(v uint32) uint32 { pt(unsafe.Pointer(x), true); return x.v.Swap(v) }
func (x *Uint32) And(m uint32) uint32  { pt(unsafe.Pointer(x), true); return x.v.And(m) }
func (x *Uint32) Or(m uint32) uint32   { pt(unsafe.Pointer(x), true); return x.v.Or(m) }
func (x *Uint32) CompareAndSwap(o, n uint32) bool {
	pt(unsafe.Pointer(x), true)
	return x.v.CompareAndSwap(o, n)
}

type Uintptr struct{ v atomic.Uintptr }

func (x *Uintptr) Load() uintptr          { pt(unsafe.Pointer(x), false); return x.v.Load() }
func (x *Uintptr) Store(v uintptr)        { pt(unsafe.Pointer(x), true); x.v.Store(v) }
func (x *Uintptr) Add(d uintptr) uintptr  { pt(unsafe.Pointer(x), true); return x.v.Add(d) }
func (x *Uintptr) Swap(v uintptr) uintptr { pt(unsafe.Pointer(x), true); return x.v.Swap(v) }
func (x *Uintptr) And(m uintptr) uintptr  { pt(unsafe.Pointer(x), true); return x.v.And(m) }
func (x *Uintptr) Or(m uintptr) uintptr   { pt(unsafe.Pointer(x), true); return x.v.Or(m) }
func (x *Uintptr) CompareAndSwap(o, n uintptr) bool {
	pt(unsafe.Pointer(x), true)
	return x.v.CompareAndSwap(o, n)
}
