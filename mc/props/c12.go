package props

import (
	"fmt"
	"math/big"

	"github.com/trajectoryjp/spatial_id_go/v4/transform"

	"verif/mc/alpha"
	"verif/mc/engine"
	"verif/mc/ref"
)

var altOffsets = []int64{0, 1, -1, 2, -2, 3, -3, 7, -7, 8, -8, 1 << 10, -(1 << 10), 1<<10 + 1, -(1<<10 + 1), 1 << 24, 1 << 30, -(1 << 30)}

// judgeAlt applies the C12 oracle to one conversion result.
func judgeAlt(c *engine.Ctx, fn, call string, r ref.AltKeyResult, min, max int64, err error, cls string) {
	d := map[string]any{"call": call, "min": min, "max": max, "err": fmt.Sprint(err),
		"exact": fmt.Sprintf("[%s,%s]", r.Exact.Lo, r.Exact.Hi), "widened": fmt.Sprintf("[%s,%s]", r.Widened.Lo, r.Widened.Hi),
		"source_exists": r.SourceExists, "exact_fits": r.ExactFits, "widened_fits": r.WidenedFits}
	if !r.SourceExists {
		if err == nil {
			c.Violation("C12:"+fn+":no-error-for-nonexistent-source-index", d)
		}
		return
	}
	if err != nil {
		if r.WidenedFits {
			c.Violation("C12:"+fn+":error-although-widened-range-fits"+cls, d)
		}
		return
	}
	if !r.ExactFits {
		c.Violation("C12:"+fn+":no-error-although-exact-range-leaves-target"+cls, d)
		return
	}
	if min > max {
		c.Violation("C12:"+fn+":min-greater-than-max", d)
		return
	}
	bmin, bmax := big.NewInt(min), big.NewInt(max)
	if bmin.Cmp(r.Exact.Lo) > 0 || bmax.Cmp(r.Exact.Hi) < 0 {
		c.Violation("C12:"+fn+":loses-altitude(exact-range-not-covered)"+cls, d)
	}
	if bmin.Cmp(r.Widened.Lo) < 0 || bmax.Cmp(r.Widened.Hi) > 0 {
		c.Violation("C12:"+fn+":beyond-metre-widened-range"+cls, d)
	}
}

func init() {
	engine.Register(&engine.Check{
		ID:          "C12",
		Title:       "Altitude-key conversion never loses altitude and is exact where it can be",
		Technique:   "exhaustive choice-tree enumeration (E1) of (zoom, zoom, base exponent, index, base offset) in both directions against exact big-integer interval arithmetic; dense band for the mutual-consistency law",
		Assumptions: []string{"index and offset values outside the alphabets (and the dense band) are not covered", "reference: ref.ZToAltKey / ref.AltKeyToZ (big.Int shifts)"},
		Phases: func(tier string) []engine.Phase {
			zs := zooms(tier)
			es := zs
			return []engine.Phase{
				{Name: "z-to-key", ShardDepth: 2, Bounds: engine.Bounds{InputDev: -1},
					Rule: "full product zin x zout x E x f in VIdx(zin) + out-of-range +-1 x O in 18 offsets: ConvertZToMinMaxAltitudekey vs exact covering range and metre-widened range, error rule; non-trivial = distinct cases whose exact range has more than one key or whose source cell is below one metre",
					Body: func(c *engine.Ctx) {
						zin := zs[c.In("zin", len(zs))]
						zout := zs[c.In("zout", len(zs))]
						e := es[c.In("E", len(es))]
						n := int64(1) << uint(zin)
						fs := append(append([]int64{}, alpha.VIdx(zin)...), n, -n-1)
						f := fs[c.In("f", len(fs))]
						o := altOffsets[c.In("O", len(altOffsets))]
						r := ref.ZToAltKey(f, zin, zout, e, o)
						min, max, err := transform.ConvertZToMinMaxAltitudekey(f, zin, zout, e, o)
						call := fmt.Sprintf("transform.ConvertZToMinMaxAltitudekey(%d, %d, %d, %d, %d)", f, zin, zout, e, o)
						c.Observe("%s -> %d %d %v", call, min, max, err)
						if zin > 25 || r.Exact.Lo.Cmp(r.Exact.Hi) != 0 {
							c.Nontrivial(call)
						}
						c.Outcome(fmt.Sprint(min, max, err != nil))
						cls := ""
						if f == n-1 {
							cls = "[top-index]"
						} else if zin > 25 {
							cls = "[sub-metre-source]"
						}
						judgeAlt(c, "ConvertZToMinMaxAltitudekey", call, r, min, max, err, cls)
					}},
				{Name: "key-to-z", ShardDepth: 2, Bounds: engine.Bounds{InputDev: -1},
					Rule: "full product kzoom x zout x E x key in {0,1,2,mid,top-1,top,-1,2^k} x O in 18 offsets: ConvertAltitudekeyToMinMaxZ vs exact covering range and metre-widened range; non-trivial = distinct cases whose exact range has more than one index or whose key cell is below one metre",
					Body: func(c *engine.Ctx) {
						k := zs[c.In("k", len(zs))]
						zout := zs[c.In("zout", len(zs))]
						e := es[c.In("E", len(es))]
						n := int64(1) << uint(k)
						ks := dedupeI([]int64{0, 1, 2, n / 2, n - 2, n - 1, -1, n, 0x5555555555 & (n - 1)})
						key := ks[c.In("key", len(ks))]
						o := altOffsets[c.In("O", len(altOffsets))]
						r := ref.AltKeyToZ(key, k, zout, e, o)
						min, max, err := transform.ConvertAltitudekeyToMinMaxZ(key, k, zout, e, o)
						call := fmt.Sprintf("transform.ConvertAltitudekeyToMinMaxZ(%d, %d, %d, %d, %d)", key, k, zout, e, o)
						c.Observe("%s -> %d %d %v", call, min, max, err)
						if k > e || r.Exact.Lo.Cmp(r.Exact.Hi) != 0 {
							c.Nontrivial(call)
						}
						c.Outcome(fmt.Sprint(min, max, err != nil))
						cls := ""
						if k > e {
							cls = "[sub-metre-source]"
						}
						judgeAlt(c, "ConvertAltitudekeyToMinMaxZ", call, r, min, max, err, cls)
					}},
				{Name: "dense-band", ShardDepth: 2, Bounds: engine.Bounds{InputDev: -1},
					Rule: "zooms 22..28 cubed x all f in [-40,40] x all O in [-9,9] u [2^10-9,2^10+9]: both oracles; in the exact regime (source and target cells >= 1 m) key in Z2K(f) <=> f in K2Z(key) for all keys within 2 of the returned range; non-trivial = distinct exact-regime cases where the returned range has at least 2 keys",
					Body: func(c *engine.Ctx) {
						zin := int64(c.In("zin", 7)) + 22
						zout := int64(c.In("zout", 7)) + 22
						e := int64(c.In("E", 7)) + 22
						f := int64(c.In("f", 81)) - 40
						oi := c.In("O", 38)
						o := int64(oi) - 9
						if oi >= 19 {
							o = 1<<10 + int64(oi-19) - 9
						}
						r := ref.ZToAltKey(f, zin, zout, e, o)
						min, max, err := transform.ConvertZToMinMaxAltitudekey(f, zin, zout, e, o)
						call := fmt.Sprintf("transform.ConvertZToMinMaxAltitudekey(%d, %d, %d, %d, %d)", f, zin, zout, e, o)
						c.Observe("%s -> %d %d %v", call, min, max, err)
						cls := ""
						if zin > 25 {
							cls = "[sub-metre-source]"
						}
						judgeAlt(c, "ConvertZToMinMaxAltitudekey", call, r, min, max, err, cls)
						c.Outcome(fmt.Sprint(max-min, err != nil))
						if err != nil || zin > 25 || zout > e {
							return
						}
						if max > min {
							c.Nontrivial(call)
						}
						for key := min - 2; key <= max+2; key++ {
							lo, hi, err2 := transform.ConvertAltitudekeyToMinMaxZ(key, zout, zin, e, o)
							if err2 != nil {
								continue
							}
							inFwd := key >= min && key <= max
							inBack := f >= lo && f <= hi
							if inFwd != inBack {
								c.Violation("C12:directions-inconsistent-in-exact-regime", map[string]any{"call": call, "min": min, "max": max, "key": key,
									"back": fmt.Sprintf("transform.ConvertAltitudekeyToMinMaxZ(%d, %d, %d, %d, %d) = [%d,%d]", key, zout, zin, e, o, lo, hi)})
								break
							}
						}
					}},
			}
		},
	})
}

func dedupeI(in []int64) []int64 {
	seen := map[int64]bool{}
	var r []int64
	for _, v := range in {
		if !seen[v] {
			seen[v] = true
			r = append(r, v)
		}
	}
	return r
}
