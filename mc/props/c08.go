package props

import (
	"fmt"
	"strings"

	"github.com/trajectoryjp/spatial_id_go/v4/operated"

	"verif/mc/alpha"
	"verif/mc/engine"
	"verif/mc/ref"
)

func stencil(kind int) [][3]int64 {
	var r [][3]int64
	for dx := int64(-1); dx <= 1; dx++ {
		for dy := int64(-1); dy <= 1; dy++ {
			for dv := int64(-1); dv <= 1; dv++ {
				nz := 0
				if dx != 0 {
					nz++
				}
				if dy != 0 {
					nz++
				}
				if dv != 0 {
					nz++
				}
				switch kind {
				case 6:
					if nz == 1 {
						r = append(r, [3]int64{dx, dy, dv})
					}
				case 8:
					if dv == 0 && nz >= 1 {
						r = append(r, [3]int64{dx, dy, dv})
					}
				case 26:
					if nz >= 1 {
						r = append(r, [3]int64{dx, dy, dv})
					}
				}
			}
		}
	}
	return r
}

func neighbourFn(kind int) func(string) []string {
	switch kind {
	case 6:
		return operated.Get6spatialIdsAdjacentToFaces
	case 8:
		return operated.Get8spatialIdsAroundHorizontal
	}
	return operated.Get26spatialIdsAroundVoxel
}

func init() {
	engine.Register(&engine.Check{
		ID:          "C08",
		Title:       "Neighbourhood queries return exactly the surrounding voxels",
		Technique:   "exhaustive choice-tree enumeration (E1) of IDs x stencils and of short voxel lists x layer counts, against the set comprehension over the modular-shift reference model",
		Assumptions: []string{"indices outside the alphabet classes and lists longer than 3 are not covered", "reference model: ref.Vox.Shift"},
		Phases: func(tier string) []engine.Phase {
			zs := zooms(tier)
			kinds := []int{6, 8, 26}
			return []engine.Phase{
				respellNeighbourPhase("C08", tier),
				{Name: "fixed-stencils", ShardDepth: 2, Bounds: engine.Bounds{InputDev: -1},
					Rule: "full product h x (x,y) in HIdx(h)^2 x v in {0,h,35} x f in VIdxSmall(v) (thorough: v in the 15 edge zooms x f in VIdx(v)) x stencil in {6,8,26}; set and multiset size vs model, exact count and self-exclusion where 3 <= 2^h, symmetry b in N(a) => a in N(b); non-trivial = distinct cases where some offset wraps",
					Body: func(c *engine.Ctx) {
						h := zs[c.In("h", len(zs))]
						hx := alpha.HIdx(h)
						x := hx[c.In("x", len(hx))]
						y := hx[c.In("y", len(hx))]
						vs := []int64{0, h, 35}
						if tier == "thorough" {
							vs = alpha.Zedge
						}
						v := vs[c.In("v", len(vs))]
						fs := alpha.VIdxSmall(v)
						if tier == "thorough" {
							fs = alpha.VIdx(v)
						}
						f := fs[c.In("f", len(fs))]
						kind := kinds[c.In("stencil", 3)]
						in := ref.Vox{H: h, X: x, Y: y, V: v, F: f}
						got := neighbourFn(kind)(in.Ext())
						want := map[string]bool{}
						for _, o := range stencil(kind) {
							want[in.Shift(o[0], o[1], o[2]).Ext()] = true
						}
						c.Observe("%d %s -> %v", kind, in.Ext(), got)
						n := int64(1) << uint(h)
						if x == 0 || y == 0 || x == n-1 || y == n-1 {
							c.Nontrivial(fmt.Sprint(kind, in.Ext()))
						}
						c.Outcome(strings.Join(got, ","))
						d := map[string]any{"call": fmt.Sprintf("neighbours%d(%q)", kind, in.Ext()), "got": got}
						if len(got) != kind {
							c.Violation(fmt.Sprintf("C08:stencil%d:wrong-multiset-size", kind), d)
						}
						gs := map[string]bool{}
						for _, g := range got {
							gs[g] = true
							if !want[g] {
								c.Violation(fmt.Sprintf("C08:stencil%d:unexpected-id", kind), d)
								break
							}
						}
						for w := range want {
							if !gs[w] {
								d["missing"] = w
								c.Violation(fmt.Sprintf("C08:stencil%d:missing-id", kind), d)
								break
							}
						}
						if n >= 3 {
							if len(gs) != kind {
								c.Violation(fmt.Sprintf("C08:stencil%d:not-%d-distinct-neighbours", kind, kind), d)
							}
							if gs[in.Ext()] {
								c.Violation(fmt.Sprintf("C08:stencil%d:contains-itself", kind), d)
							}
						}
						for _, g := range got {
							back := neighbourFn(kind)(g)
							found := false
							for _, b := range back {
								if b == in.Ext() {
									found = true
								}
							}
							if !found {
								d["neighbour"] = g
								c.Violation(fmt.Sprintf("C08:stencil%d:relation-not-symmetric", kind), d)
								break
							}
						}
					}},
				{Name: "n-layers", ShardDepth: 2, Bounds: engine.Bounds{InputDev: -1},
					Rule: "full product h in small zoom set x base voxel x list shape in {single, face-adjacent pair, identical twice, diagonal pair, triple, three mixed-zoom lists with entries on the edge of their own grid, two lists whose entries have equal horizontal zoom and equal (or adjacent) index numbers but different vertical zooms} x hLayers,vLayers in 0..4 (thorough: 0..6, base x,y in HIdx, f in VIdxSmall); set = comprehension over the model, duplicate-free, exact count (2H+1)^2(2V+1)-1 and self-exclusion for a single voxel where 2H+1 <= 2^h; non-trivial = distinct cases with both layer counts > 0",
					Body: func(c *engine.Ctx) {
						hs := []int64{0, 1, 2, 3, 4, 16, 35}
						if tier == "thorough" {
							hs = []int64{0, 1, 2, 3, 4, 5, 7, 16, 25, 26, 31, 34, 35}
						}
						h := hs[c.In("h", len(hs))]
						hx := alpha.HIdxSmall(h)
						fsel := []int64{0, -1}
						nl := 5
						if tier == "thorough" {
							hx = alpha.HIdx(h)
							fsel = alpha.VIdxSmall(h)
							nl = 7
						}
						x := hx[c.In("x", len(hx))]
						y := hx[c.In("y", len(hx))]
						f := fsel[c.In("f", len(fsel))]
						base := ref.Vox{H: h, X: x, Y: y, V: h, F: f}
						shape := c.In("shape", 10)
						var list []ref.Vox
						switch shape {
						case 0:
							list = []ref.Vox{base}
						case 1:
							list = []ref.Vox{base, base.Shift(1, 0, 0)}
						case 2:
							list = []ref.Vox{base, base}
						case 3:
							list = []ref.Vox{base, base.Shift(-1, 1, 1)}
						case 4:
							list = []ref.Vox{base, base.Shift(0, 2, 0), base.Shift(0, 0, -1)}
						case 5, 6, 7: // mixed horizontal / vertical zooms in one list: each entry wraps on its own grid
							if h < 2 || h > 33 {
								c.Skip("no-room-for-mixed-zooms")
							}
							coarseEdge := ref.Vox{H: h - 2, X: (int64(1) << uint(h-2)) - 1, Y: 0, V: h, F: f}
							fineBig := ref.Vox{H: h + 2, X: (int64(1) << uint(h+2)) - 1, Y: (int64(1) << uint(h+1)) + 1, V: h + 1, F: f}
							switch shape {
							case 5:
								list = []ref.Vox{base, coarseEdge}
							case 6:
								list = []ref.Vox{coarseEdge, fineBig}
							case 7:
								list = []ref.Vox{fineBig, base, coarseEdge}
							}
						case 8, 9: // equal horizontal zoom and equal index numbers, different vertical zoom: different voxels
							v2 := h + 1
							if h == 35 {
								v2 = h - 1
							}
							other := base
							other.V = v2
							if shape == 8 {
								list = []ref.Vox{base, other}
							} else {
								o := other.Shift(1, 0, 0)
								list = []ref.Vox{o, base}
							}
						}
						H := int64(c.In("hLayers", nl))
						V := int64(c.In("vLayers", nl))
						ids := ref.Exts(list)
						got, err := operated.GetNspatialIdsAroundVoxcels(ids, H, V)
						call := fmt.Sprintf("operated.GetNspatialIdsAroundVoxcels(%s, %d, %d)", goList(ids), H, V)
						d := map[string]any{"call": call}
						if err != nil {
							c.Violation("C08:GetNspatialIdsAroundVoxcels:error-on-valid-input", d)
							return
						}
						want := map[string]bool{}
						for _, b := range list {
							for dx := -H; dx <= H; dx++ {
								for dy := -H; dy <= H; dy++ {
									for dv := -V; dv <= V; dv++ {
										if dx == 0 && dy == 0 && dv == 0 {
											continue
										}
										want[b.Shift(dx, dy, dv).Ext()] = true
									}
								}
							}
						}
						c.Observe("%s -> %d", call, len(got))
						if H > 0 && V > 0 {
							c.Nontrivial(call)
						}
						c.Outcome(fmt.Sprint(len(got), len(want)))
						if c.WantSample() && H == 1 && shape == 1 {
							c.Sample(map[string]any{"call": call, "result_size": len(got)})
						}
						if dp := dupOf(got); dp != "" {
							d["dup"] = dp
							c.Violation("C08:GetNspatialIdsAroundVoxcels:duplicate-in-result", d)
						}
						wl := make([]string, 0, len(want))
						for w := range want {
							wl = append(wl, w)
						}
						missing, extra := diffSets(got, wl)
						if len(missing)+len(extra) > 0 {
							d["missing"], d["extra"] = head(missing, 6), head(extra, 6)
							c.Violation("C08:GetNspatialIdsAroundVoxcels:set-differs-from-model", d)
						}
						n := int64(1) << uint(h)
						if shape == 0 && 2*H+1 <= n {
							exp := (2*H+1)*(2*H+1)*(2*V+1) - 1
							if int64(len(got)) != exp {
								d["want_n"] = exp
								c.Violation("C08:GetNspatialIdsAroundVoxcels:wrong-count", d)
							}
							for _, g := range got {
								if g == base.Ext() {
									c.Violation("C08:GetNspatialIdsAroundVoxcels:contains-itself", d)
								}
							}
						}
					}},
				{Name: "negative-layers", Serial: true, Bounds: engine.Bounds{InputDev: -1},
					Rule: "hLayers,vLayers in {-1,0,1}^2 with at least one negative: error required",
					Body: func(c *engine.Ctx) {
						H := int64(c.In("H", 3)) - 1
						V := int64(c.In("V", 3)) - 1
						got, err := operated.GetNspatialIdsAroundVoxcels([]string{"3/1/1/3/0"}, H, V)
						c.Observe("%d %d %v %v", H, V, got, err)
						c.Nontrivial(fmt.Sprint(H, V))
						if (H < 0 || V < 0) && err == nil {
							c.Violation("C08:GetNspatialIdsAroundVoxcels:negative-layer-accepted", map[string]any{"H": H, "V": V})
						}
						if H >= 0 && V >= 0 && err != nil {
							c.Violation("C08:GetNspatialIdsAroundVoxcels:error-on-valid-input", map[string]any{"H": H, "V": V})
						}
					}},
			}
		},
	})
}
