package props

import (
	"fmt"
	"math/big"

	"github.com/trajectoryjp/spatial_id_go/v4/common/object"
	"github.com/trajectoryjp/spatial_id_go/v4/transform"

	"verif/mc/alpha"
	"verif/mc/engine"
	"verif/mc/ref"
)

func init() {
	engine.Register(&engine.Check{
		ID:          "C13",
		Title:       "3D tile keys convert to IDs that cover the tile and keep its footprint",
		Technique:   "exhaustive choice-tree enumeration (E1) of tile lists x (base exponent, base offset, output zoom) against per-tile application of the C12 conversion, the exact interval reference and the expansion reference",
		Assumptions: []string{"lists longer than 3, and parameter values outside the alphabets, are not covered; calls predicted to return more than 600 IDs are skipped and counted", "reference: ref.AltKeyToZ, ref.ChangeZoom"},
		Phases: func(tier string) []engine.Phase {
			zs := zooms(tier)
			es := zs
			offs := []int64{0, 1, -1, 1 << 10, 1 << 24}
			if tier != "thorough" {
				es = []int64{0, 16, 24, 25, 26, 35}
				offs = []int64{0, 1, -1, 1 << 24}
			}
			return []engine.Phase{
				{Name: "tile-lists", ShardDepth: 3, Bounds: engine.Bounds{InputDev: -1},
					Rule: "full product tile vZoom x E x outV x z class x O x hZoom class x list shape {[A],[A,A],[A,B(z+1)],[A,C(other footprint)],[A,B,C],[bad,A],[A,bad],[A,bad,B],[A,A at hZoom+1],[A at vZoom+1,A],[A,alias,A],[A,alias,B],[alias,A,alias],[fine-low,fine-high,coarse],[fine-high,coarse,fine-low],[z,z+2,z+1],[z+2,z,z+1]}; footprint unchanged, all at outV, per-tile indices = ConvertAltitudekeyToMinMaxZ range and contain the exact interval range, duplicate-free, error => nil result; spatial variant = union of expansions; non-trivial = distinct cases with >= 2 tiles and >= 2 indices per tile",
					Body: func(c *engine.Ctx) {
						vz := zs[c.In("vZoom", len(zs))]
						e := es[c.In("E", len(es))]
						outV := zs[c.In("outV", len(zs))]
						n := int64(1) << uint(vz)
						zcl := dedupeI([]int64{0, 1, n / 2, n - 1})
						z := zcl[c.In("z", len(zcl))]
						o := offs[c.In("O", len(offs))]
						hcl := []int64{outV, 0, 35, outV - 1, outV + 2}
						hz := hcl[c.In("hZoom", len(hcl))]
						if hz < 0 || hz > 35 {
							c.Skip("hzoom-out-of-range")
						}
						shape := c.In("shape", 17)
						hx := alpha.HIdxSmall(hz)
						x, y := hx[len(hx)-1], hx[0]
						type tl struct{ h, x, y, v, z int64 }
						A := tl{hz, x, y, vz, z}
						B := tl{hz, x, y, vz, z + 1}
						if z+1 >= n {
							B = tl{hz, x, y, vz, z - 1}
						}
						C := tl{hz, y, x, vz, z}
						bad := tl{hz, x, y, vz, n}
						var tiles []tl
						switch shape {
						case 0:
							tiles = []tl{A}
						case 1:
							tiles = []tl{A, A}
						case 2:
							tiles = []tl{A, B}
						case 3:
							tiles = []tl{A, C}
						case 4:
							tiles = []tl{A, B, C}
						case 5:
							tiles = []tl{bad, A}
						case 6:
							tiles = []tl{A, bad}
						case 7:
							tiles = []tl{A, bad, B}
						case 8: // same numbers at the next horizontal zoom
							if hz+1 > 35 {
								c.Skip("alias-zoom-out-of-range")
							}
							tiles = []tl{A, {hz + 1, x, y, vz, z}}
						case 10, 11, 12: // a tile with the same numbers at another horizontal zoom between two equal / overlapping tiles
							if hz+1 > 35 {
								c.Skip("alias-zoom-out-of-range")
							}
							al := tl{hz + 1, x, y, vz, z}
							switch shape {
							case 10:
								tiles = []tl{A, al, A}
							case 11:
								tiles = []tl{A, al, B}
							case 12:
								tiles = []tl{al, A, al}
							}
						case 13, 14: // a coarse tile after two finer tiles that contain only its first and last slice
							if vz < 2 {
								c.Skip("no-coarser-vertical-zoom")
							}
							cz := z >> 2
							lo, hi := tl{hz, x, y, vz, cz << 2}, tl{hz, x, y, vz, cz<<2 + 3}
							co := tl{hz, x, y, vz - 2, cz}
							if shape == 13 {
								tiles = []tl{lo, hi, co}
							} else {
								tiles = []tl{hi, co, lo}
							}
						case 15, 16: // three neighbouring tiles out of order (ranges overlap when the offset is unaligned)
							if z+2 >= n {
								c.Skip("no-room-for-three-neighbours")
							}
							t0, t1, t2 := A, tl{hz, x, y, vz, z + 1}, tl{hz, x, y, vz, z + 2}
							if shape == 15 {
								tiles = []tl{t0, t2, t1}
							} else {
								tiles = []tl{t2, t0, t1}
							}
						case 9: // same numbers at the next vertical zoom
							if vz+1 > 35 {
								c.Skip("alias-zoom-out-of-range")
							}
							tiles = []tl{{hz, x, y, vz + 1, z}, A}
						}
						// budget and expected result from the per-tile conversion
						want := map[ref.Vox]bool{}
						expectErr := false
						total := int64(0)
						for _, t := range tiles {
							if t.z < 0 || t.z >= int64(1)<<uint(t.v) {
								expectErr = true
								continue
							}
							r := ref.AltKeyToZ(t.z, t.v, outV, e, o)
							w := new(big.Int).Sub(r.Widened.Hi, r.Widened.Lo)
							if !w.IsInt64() || w.Int64() > 600 {
								c.Skip("over-budget")
							}
							total += w.Int64() + 1
						}
						if total > 600 {
							c.Skip("over-budget")
						}
						var req []*object.TileXYZ
						var desc []string
						for _, t := range tiles {
							tx, err := object.NewTileXYZ(t.h, t.x, t.y, t.v, t.z)
							if err != nil {
								c.Violation("C13:NewTileXYZ:error-on-valid-zooms", map[string]any{"tile": fmt.Sprint(t)})
								return
							}
							req = append(req, tx)
							desc = append(desc, fmt.Sprintf("(%d,%d,%d,%d,%d)", t.h, t.x, t.y, t.v, t.z))
						}
						call := fmt.Sprintf("transform.ConvertTileXYZsToExtendedSpatialIDs(%v, %d, %d, %d)", desc, e, o, outV)
						reqBefore := snapObjects(req)
						got, err := transform.ConvertTileXYZsToExtendedSpatialIDs(req, e, o, outV)
						c.Observe("%s -> %d %v", call, len(got), err)
						d := map[string]any{"call": call, "err": fmt.Sprint(err), "got_n": len(got)}
						if snapObjects(req) != reqBefore {
							c.Violation("C13:ConvertTileXYZsToExtendedSpatialIDs:modifies-the-callers-tile-objects", d)
						}
						for _, t := range tiles {
							if t.z < 0 || t.z >= int64(1)<<uint(t.v) {
								continue
							}
							lo, hi, err2 := transform.ConvertAltitudekeyToMinMaxZ(t.z, t.v, outV, e, o)
							if err2 != nil {
								expectErr = true
								continue
							}
							r := ref.AltKeyToZ(t.z, t.v, outV, e, o)
							if big.NewInt(lo).Cmp(r.Exact.Lo) > 0 || big.NewInt(hi).Cmp(r.Exact.Hi) < 0 {
								d["tile"] = fmt.Sprint(t)
								c.Violation("C13:per-tile-range-does-not-contain-tile-interval", d)
							}
							for f := lo; f <= hi; f++ {
								want[ref.Vox{H: t.h, X: t.x, Y: t.y, V: outV, F: f}] = true
							}
						}
						c.Outcome(fmt.Sprint(len(got), err != nil))
						if expectErr {
							if err == nil {
								c.Violation("C13:ConvertTileXYZsToExtendedSpatialIDs:no-error-for-bad-tile", d)
							} else if got != nil {
								c.Violation("C13:ConvertTileXYZsToExtendedSpatialIDs:partial-result-with-error", d)
							}
							sp, err3 := transform.ConvertTileXYZsToSpatialIDs(req, e, o, outV)
							if err3 == nil || sp != nil {
								c.Violation("C13:ConvertTileXYZsToSpatialIDs:no-error-or-partial-result-for-bad-tile", d)
							}
							return
						}
						if err != nil {
							c.Violation("C13:ConvertTileXYZsToExtendedSpatialIDs:error-on-valid-input", d)
							return
						}
						if len(tiles) >= 2 && len(want) >= 2*len(tiles) {
							c.Nontrivial(call)
						}
						if c.WantSample() && shape == 2 && len(want) > 2 {
							c.Sample(map[string]any{"call": call, "ids": len(got)})
						}
						seen := map[ref.Vox]bool{}
						for _, g := range got {
							v := ref.Vox{H: g.HZoom(), X: g.X(), Y: g.Y(), V: g.VZoom(), F: g.Z()}
							if seen[v] {
								d["dup"] = v.Ext()
								c.Violation("C13:ConvertTileXYZsToExtendedSpatialIDs:duplicate", d)
							}
							seen[v] = true
							if !want[v] {
								d["unexpected"] = v.Ext()
								c.Violation("C13:ConvertTileXYZsToExtendedSpatialIDs:unexpected-id(footprint/zoom/index)", d)
								break
							}
						}
						if len(seen) != len(want) {
							d["want_n"] = len(want)
							c.Violation("C13:ConvertTileXYZsToExtendedSpatialIDs:missing-ids", d)
						}
						// spatial variant = union of expansions
						exp := int64(0)
						for v := range want {
							t := v.H
							if v.V > t {
								t = v.V
							}
							exp += v.ChangeZoomCount(t, t)
							if exp > 3000 {
								break
							}
						}
						if exp > 3000 {
							c.Count("spatial_variant_skipped_over_budget")
							return
						}
						wantSp := map[string]bool{}
						for v := range want {
							t := v.H
							if v.V > t {
								t = v.V
							}
							for _, w := range v.ChangeZoom(t, t) {
								wantSp[w.Spatial()] = true
							}
						}
						sp, err := transform.ConvertTileXYZsToSpatialIDs(req, e, o, outV)
						if err != nil {
							c.Violation("C13:ConvertTileXYZsToSpatialIDs:error-on-valid-input", d)
							return
						}
						gs := map[string]bool{}
						for _, s := range sp {
							gs[s] = true
							if !wantSp[s] {
								d["unexpected"] = s
								c.Violation("C13:ConvertTileXYZsToSpatialIDs:not-the-expansion", d)
								break
							}
						}
						if len(gs) != len(wantSp) {
							c.Violation("C13:ConvertTileXYZsToSpatialIDs:not-the-expansion", d)
						}
					}},
			}
		},
	})
}
