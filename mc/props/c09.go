package props

import (
	"fmt"
	"math"

	"github.com/trajectoryjp/spatial_id_go/v4/common/object"
	"github.com/trajectoryjp/spatial_id_go/v4/detector"
	"github.com/trajectoryjp/spatial_id_go/v4/integrate"
	"github.com/trajectoryjp/spatial_id_go/v4/shape"

	"verif/mc/alpha"
	"verif/mc/engine"
	"verif/mc/ref"
)

// c09Points: a fixed point alphabet crossing hemispheres, signs of altitude and tile boundaries.
func c09Points() [][3]float64 {
	var r [][3]float64
	lons := []float64{-180, -179.99999999, -90, -1e-9, 0, 1e-9, 139.7, 179.99999999, 180, math.Nextafter(180, 0), math.Nextafter(0, -1)}
	lats := []float64{-85.05, -45, -1e-9, 0, 1e-9, 35.6, 66.51326044311186, 85.05}
	alts := []float64{-33554432, -1000.5, -1, -1e-9, 0, 1e-9, 0.5, 1, 12.345, 33554431.5}
	for i, lo := range lons {
		for j, la := range lats {
			r = append(r, [3]float64{lo, la, alts[(i+j)%len(alts)]})
		}
	}
	for _, a := range alts {
		r = append(r, [3]float64{139.7, 35.6, a})
	}
	return r
}

func init() {
	engine.Register(&engine.Check{
		ID:          "C09",
		Title:       "Point lookup, zoom change, merge and overlap agree with each other",
		Technique:   "exhaustive choice-tree enumeration (E1) of relational equalities between the library's own operations: all ordered zoom pairs per axis x a point alphabet; IDs x refinements up to 3 levels; no reference model",
		Assumptions: []string{"points and indices outside the alphabets, and refinements above 3 levels, are not covered", "oracle is an equation between library results (plus C01/C03/C04/C05 deciding each side separately)"},
		Phases: func(tier string) []engine.Phase {
			pts := c09Points()
			zs := zooms(tier)
			return []engine.Phase{
				{Name: "point-nesting", ShardDepth: 2, Bounds: engine.Bounds{InputDev: -1},
					Rule: "full product point x axis x fine zoom x coarse zoom <= fine (all 0..35): ID(p, coarse) = zoom-out of ID(p, fine) on that axis (other axis fixed at 20); the two IDs overlap; non-trivial = distinct cases with negative altitude (vertical axis) or coarse < fine",
					Body: func(c *engine.Ctx) {
						p := pts[c.In("point", len(pts))]
						axis := c.In("axis", 2)
						fine := int64(c.In("fine", 36))
						coarse := int64(c.In("coarse", 36))
						if coarse > fine {
							c.Skip("coarse>fine")
						}
						pt, err := object.NewPoint(p[0], p[1], p[2])
						if err != nil {
							c.Skip("point-rejected")
						}
						hf, vf, hc, vc := fine, int64(20), coarse, int64(20)
						if axis == 1 {
							hf, vf, hc, vc = 20, fine, 20, coarse
						}
						idF, e1 := shape.GetExtendedSpatialIdsOnPoints([]*object.Point{pt}, hf, vf)
						idC, e2 := shape.GetExtendedSpatialIdsOnPoints([]*object.Point{pt}, hc, vc)
						d := map[string]any{"point": p, "fine": []int64{hf, vf}, "coarse": []int64{hc, vc}}
						if e1 != nil || e2 != nil {
							c.Violation("C09:point-lookup:error", d)
							return
						}
						out, e3 := integrate.ChangeExtendedSpatialIdsZoom(idF, hc, vc)
						c.Observe("%v %s %s %v", p, idF[0], idC[0], out)
						if coarse < fine && (axis == 0 || p[2] < 0) {
							c.Nontrivial(fmt.Sprint(p, axis, fine, coarse))
						}
						c.Outcome(idC[0])
						d["id_fine"], d["id_coarse"], d["zoom_out_of_fine"] = idF[0], idC[0], out
						if e3 != nil || len(out) != 1 || out[0] != idC[0] {
							cls := ""
							if axis == 1 && p[2] < 0 {
								cls = "[negative-altitude]"
							}
							c.Violation("C09:point-id-at-coarse-zoom-differs-from-zoom-out-of-fine-id"+cls, d)
						}
						ov, e4 := detector.CheckExtendedSpatialIdsOverlap(idF[0], idC[0])
						ov2, e5 := detector.CheckExtendedSpatialIdsOverlap(idC[0], idF[0])
						if e4 != nil || e5 != nil || !ov || !ov2 {
							c.Violation("C09:ids-of-one-point-do-not-overlap", d)
						}
					}},
				{Name: "point-all-zooms-overlap", ShardDepth: 1, Bounds: engine.Bounds{InputDev: -1},
					Rule: "for each point: its 36 IDs at h=v=z pairwise overlap (1296 ordered pairs), and mixed (h,v) pairs from a 6-zoom sub-alphabet; non-trivial = distinct points",
					Body: func(c *engine.Ctx) {
						p := pts[c.In("point", len(pts))]
						pt, err := object.NewPoint(p[0], p[1], p[2])
						if err != nil {
							c.Skip("point-rejected")
						}
						var ids []string
						for z := int64(0); z <= 35; z++ {
							id, _ := shape.GetExtendedSpatialIdsOnPoints([]*object.Point{pt}, z, z)
							ids = append(ids, id[0])
						}
						sub := []int64{0, 1, 13, 25, 26, 35}
						for _, h := range sub {
							for _, v := range sub {
								if h != v {
									id, _ := shape.GetExtendedSpatialIdsOnPoints([]*object.Point{pt}, h, v)
									ids = append(ids, id[0])
								}
							}
						}
						c.Nontrivial(fmt.Sprint(p))
						c.Observe("%v %v", p, ids[:3])
						for _, a := range ids {
							for _, b := range ids {
								ov, err := detector.CheckExtendedSpatialIdsOverlap(a, b)
								c.Count("overlap_pairs")
								if err != nil || !ov {
									c.Violation("C09:ids-of-one-point-do-not-overlap", map[string]any{"point": p, "a": a, "b": b})
									return
								}
							}
						}
					}},
				{Name: "mixed-depth-descendants", ShardDepth: 2, Bounds: engine.Bounds{InputDev: -1},
					Rule: "full product h x v x (x,y) in HIdxSmall(h)^2 x f in VIdxSmall(v) x refinement kind {both axes, horizontal only, vertical only} x which child is split again x order {coarse-first, fine-first, interleaved, unrelated finer voxel in the middle}: the complete set of descendants of mixed depth merges to exactly the ID at its own zooms; non-trivial = distinct cases with negative f",
					Body: func(c *engine.Ctx) {
						h := zs[c.In("h", len(zs))]
						v := zs[c.In("v", len(zs))]
						hx := alpha.HIdxSmall(h)
						x := hx[c.In("x", len(hx))]
						y := hx[c.In("y", len(hx))]
						fs := alpha.VIdxSmall(v)
						f := fs[c.In("f", len(fs))]
						kind := c.In("kind", 3)
						dh, dv := int64(1), int64(1)
						if kind == 1 {
							dv = 0
						} else if kind == 2 {
							dh = 0
						}
						if h+2*dh > 35 || v+2*dv > 35 {
							c.Skip("fine-zoom-above-35")
						}
						id := ref.Vox{H: h, X: x, Y: y, V: v, F: f}
						kids := id.ChangeZoom(h+dh, v+dv)
						k := c.In("split", 2)
						split := kids[0]
						if k == 1 {
							split = kids[len(kids)-1]
						}
						var coarse, fine []string
						for _, kd := range kids {
							if kd != split {
								coarse = append(coarse, kd.Ext())
							}
						}
						for _, g := range split.ChangeZoom(h+2*dh, v+2*dv) {
							fine = append(fine, g.Ext())
						}
						order := c.In("order", 4)
						var list []string
						switch order {
						case 0:
							list = append(append(list, coarse...), fine...)
						case 1:
							list = append(append(list, fine...), coarse...)
						case 2:
							for i := 0; i < len(coarse) || i < len(fine); i++ {
								if i < len(coarse) {
									list = append(list, coarse[i])
								}
								if i < len(fine) {
									list = append(list, fine[i])
								}
							}
						case 3:
							// uniform-depth children with an unrelated finer voxel in the middle of the list
							var all []string
							for _, kd := range kids {
								all = append(all, kd.Ext())
							}
							other := id.Shift(1, 0, 3)
							if other == id || h+2 > 35 || v+2 > 35 {
								c.Skip("no-unrelated-voxel")
							}
							o := other.ChangeZoom(h+2, v+2)[0].Ext()
							list = append(append(append(list, all[:len(all)/2]...), o), all[len(all)/2:]...)
						}
						got, err := integrate.MergeExtendedSpatialIds(list, h, v)
						c.Observe("%s %d %d %d -> %v", id.Ext(), kind, k, order, got)
						if f < 0 {
							c.Nontrivial(fmt.Sprint(id.Ext(), kind, k, order))
						}
						c.Outcome(fmt.Sprint(len(got)))
						d := map[string]any{"id": id.Ext(), "call": fmt.Sprintf("integrate.MergeExtendedSpatialIds(%s, %d, %d)", goList(list), h, v), "got": head(got, 20)}
						ok := err == nil
						if order == 3 {
							// the unrelated voxel stays, the children merge
							ok = ok && len(got) == 2 && (got[0] == id.Ext() || got[1] == id.Ext())
						} else {
							ok = ok && len(got) == 1 && got[0] == id.Ext()
						}
						if !ok {
							c.Violation("C09:merging-a-complete-mixed-depth-descendant-set-does-not-return-the-id", d)
						}
					}},
				{Name: "id-roundtrips", ShardDepth: 2, Bounds: engine.Bounds{InputDev: -1},
					Rule: "full product h x v x (x,y) in HIdxSmall(h)^2 x f in VIdx(v) x (dh,dv) in 0..3 x 0..3: zooming in by (dh,dv) then back out returns exactly the ID; merging the complete set of descendants at the ID's own zooms returns exactly the ID; non-trivial = distinct cases with dh+dv > 0 and negative f",
					Body: func(c *engine.Ctx) {
						h := zs[c.In("h", len(zs))]
						v := zs[c.In("v", len(zs))]
						hx := alpha.HIdxSmall(h)
						x := hx[c.In("x", len(hx))]
						y := hx[c.In("y", len(hx))]
						fs := alpha.VIdx(v)
						f := fs[c.In("f", len(fs))]
						dh := int64(c.In("dh", 4))
						dv := int64(c.In("dv", 4))
						if h+dh > 35 || v+dv > 35 {
							c.Skip("fine-zoom-above-35")
						}
						id := ref.Vox{H: h, X: x, Y: y, V: v, F: f}.Ext()
						fine, e1 := integrate.ChangeExtendedSpatialIdsZoom([]string{id}, h+dh, v+dv)
						d := map[string]any{"id": id, "dh": dh, "dv": dv}
						if e1 != nil {
							c.Violation("C09:zoom-in:error", d)
							return
						}
						back, e2 := integrate.ChangeExtendedSpatialIdsZoom(fine, h, v)
						merged, e3 := integrate.MergeExtendedSpatialIds(fine, h, v)
						c.Observe("%s %d %d -> %d %v %v", id, dh, dv, len(fine), back, merged)
						if dh+dv > 0 && f < 0 {
							c.Nontrivial(fmt.Sprint(id, dh, dv))
						}
						c.Outcome(fmt.Sprint(len(fine)))
						d["fine_n"], d["back"], d["merged"] = len(fine), back, merged
						if e2 != nil || len(back) != 1 || back[0] != id {
							c.Violation("C09:zoom-in-then-out-does-not-return-the-id", d)
						}
						if e3 != nil || len(merged) != 1 || merged[0] != id {
							c.Violation("C09:merging-all-descendants-does-not-return-the-id", d)
						}
						// the complete set with one entry listed twice is still the complete set
						if len(fine) <= 64 {
							rep := append(append([]string{fine[len(fine)/2]}, fine...), fine[0])
							m2, e4 := integrate.MergeExtendedSpatialIds(rep, h, v)
							if e4 != nil || len(m2) != 1 || m2[0] != id {
								d["merged_with_repeated_entry"] = head(m2, 10)
								c.Violation("C09:merging-all-descendants-with-a-repeated-entry-does-not-return-the-id", d)
							}
						}
					}},
				{Name: "huge-vertical-index", Serial: true, Bounds: engine.Bounds{InputDev: -1},
					Rule: "IDs whose vertical index is far beyond the nominal range (the shift operations produce them: +-(2^53+3), +-(2^59+1), 2^62-1, -(2^62)) at h = 3, v in {20, 35} x d in 1..3: the zoom-out by d levels is floor(f / 2^d) exactly (the value does not fit a float64); zooming in by d and back out returns the ID; merging the 2^d vertical descendants at the ID's zooms returns the ID; non-trivial = distinct (f, v, d)",
					Body: func(c *engine.Ctx) {
						fsel := []int64{1<<53 + 3, -(1<<53 + 3), 1<<59 + 1, -(1<<59 + 1), 1<<62 - 1, -(1 << 62)}
						f := fsel[c.In("f", len(fsel))]
						v := []int64{20, 35}[c.In("v", 2)]
						d := int64(1 + c.In("d", 3))
						id := ref.Vox{H: 3, X: 5, Y: 2, V: v, F: f}
						c.Nontrivial(fmt.Sprint(f, v, d))
						c.Observe("%s %d", id.Ext(), d)
						dd := map[string]any{"id": id.Ext(), "levels": d}
						out, err := integrate.ChangeExtendedSpatialIdsZoom([]string{id.Ext()}, 3, v-d)
						want := ref.Vox{H: 3, X: 5, Y: 2, V: v - d, F: f >> uint(d)}.Ext()
						if err != nil || len(out) != 1 || out[0] != want {
							dd["got"], dd["want"] = out, want
							c.Violation("C09:huge-vertical-index:zoom-out-is-not-the-floor", dd)
						}
						if v+d <= 35 && f < (1<<62)>>uint(d) && f >= -((1<<62)>>uint(d)) {
							fine, e1 := integrate.ChangeExtendedSpatialIdsZoom([]string{id.Ext()}, 3, v+d)
							if e1 != nil || int64(len(fine)) != int64(1)<<uint(d) {
								dd["fine"] = fine
								c.Violation("C09:huge-vertical-index:zoom-in-wrong-count", dd)
								return
							}
							back, e2 := integrate.ChangeExtendedSpatialIdsZoom(fine, 3, v)
							if e2 != nil || len(back) != 1 || back[0] != id.Ext() {
								dd["back"] = back
								c.Violation("C09:zoom-in-then-out-does-not-return-the-id", dd)
							}
							merged, e3 := integrate.MergeExtendedSpatialIds(fine, 3, v)
							if e3 != nil || len(merged) != 1 || merged[0] != id.Ext() {
								dd["merged"] = merged
								c.Violation("C09:merging-all-descendants-does-not-return-the-id", dd)
							}
						}
					}},
				{Name: "spatial-id-chain", ShardDepth: 1, Bounds: engine.Bounds{InputDev: -1},
					Rule: "the single-zoom z/f/x/y entry points used one after the other on ONE caller-owned list (a window into a larger array with sentinels behind it): point x zoom z in 1..35 (quick: edge zooms) x step in 1..3: ids = GetSpatialIdsOnPoints(p,z); ChangeSpatialIdsZoom(ids, z-step) = GetSpatialIdsOnPoints(p, z-step), asked twice from the same list; zoom in by one level and back, and MergeSpatialIds of the children, return the ID; CheckSpatialIdsOverlap of the list's entry with its ancestor is true (inside the altitude range that check is documented for); the list is unchanged at the end; non-trivial = distinct (point, zoom, step) with negative altitude",
					Body: func(c *engine.Ctx) {
						p := pts[c.In("point", len(pts))]
						z := zs[c.In("z", len(zs))]
						step := int64(1 + c.In("step", 3))
						if z-step < 0 || z < 1 {
							c.Skip("no-coarser-zoom")
						}
						pt, err := object.NewPoint(p[0], p[1], p[2])
						if err != nil {
							c.Skip("point-rejected")
						}
						raw, e1 := shape.GetSpatialIdsOnPoints([]*object.Point{pt}, z)
						want, e2 := shape.GetSpatialIdsOnPoints([]*object.Point{pt}, z-step)
						d := map[string]any{"point": p, "zoom": z, "step": step}
						if e1 != nil || e2 != nil || len(raw) != 1 || len(want) != 1 {
							c.Violation("C09:spatial-id-point-lookup:error", d)
							return
						}
						ids, chk := guardedList(raw)
						id := raw[0]
						d["id"], d["id_coarse"] = id, want[0]
						c.Observe("%v %d %d %s %s", p, z, step, id, want[0])
						if p[2] < 0 {
							c.Nontrivial(fmt.Sprint(p, z, step))
						}
						c.Outcome(want[0])
						for round := 0; round < 2; round++ {
							out, e := integrate.ChangeSpatialIdsZoom(ids, z-step)
							if e != nil || len(out) != 1 || out[0] != want[0] {
								d["round"], d["got"], d["err"] = round, out, fmt.Sprint(e)
								c.Violation("C09:spatial-id-zoom-out-differs-from-point-id-at-coarse-zoom", d)
								return
							}
						}
						// the radix-tree overlap check is documented for z >= 1 and -2^(z-1) <= f < 2^(z-1) only (C05)
						inRange := func(sid string) bool {
							v, ok := ref.ParseSpatial(sid)
							return ok && v.H >= 1 && v.F >= -(int64(1)<<uint(v.H-1)) && v.F < int64(1)<<uint(v.H-1)
						}
						if inRange(ids[0]) && inRange(want[0]) {
							c.Count("overlap_checked")
							if ov, e := detector.CheckSpatialIdsOverlap(ids[0], want[0]); e != nil || !ov {
								c.Violation("C09:spatial-ids-of-one-point-do-not-overlap", d)
							}
						}
						if z < 35 {
							fine, e := integrate.ChangeSpatialIdsZoom(ids, z+1)
							if e != nil || len(fine) != 8 {
								d["fine"] = fine
								c.Violation("C09:spatial-id-zoom-in:not-8-children", d)
							} else {
								fl, fchk := guardedList(fine)
								back, e3 := integrate.ChangeSpatialIdsZoom(fl, z)
								merged, e4 := integrate.MergeSpatialIds(fl, z)
								back2, e5 := integrate.ChangeSpatialIdsZoom(fl, z)
								if e3 != nil || e5 != nil || len(back) != 1 || back[0] != id || len(back2) != 1 || back2[0] != id {
									d["back"], d["back_again"] = back, back2
									c.Violation("C09:spatial-id-zoom-in-then-out-does-not-return-the-id", d)
								}
								if e4 != nil || len(merged) != 1 || merged[0] != id {
									d["merged"] = merged
									c.Violation("C09:spatial-id-merging-all-children-does-not-return-the-id", d)
								}
								if m := fchk(); m != "" {
									c.Violation("C09:spatial-id-operations-modify-the-callers-list["+m+"]", d)
								}
							}
						}
						if m := chk(); m != "" {
							c.Violation("C09:spatial-id-operations-modify-the-callers-list["+m+"]", d)
						}
					}},
			}
		},
	})
}
