package props

import (
	"fmt"
	"reflect"

	"github.com/trajectoryjp/spatial_id_go/v4/common/object"
	"github.com/trajectoryjp/spatial_id_go/v4/shape"
	"github.com/trajectoryjp/spatial_id_go/v4/transform"

	"verif/mc/alpha"
	"verif/mc/engine"
	"verif/mc/ref"
)

func init() {
	engine.Register(&engine.Check{
		ID:          "C10",
		Title:       "Converting between ID notations loses nothing",
		Technique:   "exhaustive choice-tree enumeration (E1) of IDs and short lists through the notation conversions, object parse/print and the expansion, against string permutation and the dyadic-box reference",
		Assumptions: []string{"index values outside the alphabet classes, lists longer than 3 and zoom differences above 4 (expansion) are not covered", "reference: ref.Vox formatting, ref.ChangeZoom"},
		Phases: func(tier string) []engine.Phase {
			zs := zooms(tier)
			return []engine.Phase{
				respellNotationPhase("C10", tier),
				longIDListPhase("C10", tier),
				{Name: "object-roundtrip", Serial: true, Bounds: engine.Bounds{InputDev: -1},
					Rule: "full product h x v x x,y in HIdx(h) x f in VIdx(v): NewExtendedSpatialID(s).ID()==s, FieldParams and getters positional, GetVoxelIDfromSpatialID; non-trivial = distinct IDs whose five components are pairwise distinct",
					Body: func(c *engine.Ctx) {
						h := zs[c.In("h", len(zs))]
						v := zs[c.In("v", len(zs))]
						hx := alpha.HIdx(h)
						x := hx[c.In("x", len(hx))]
						y := hx[c.In("y", len(hx))]
						fs := alpha.VIdx(v)
						f := fs[c.In("f", len(fs))]
						in := ref.Vox{H: h, X: x, Y: y, V: v, F: f}
						s := in.Ext()
						o, err := object.NewExtendedSpatialID(s)
						c.Observe("%s %v", s, err)
						distinct := map[int64]bool{h: true, x: true, y: true, v: true, f: true}
						if len(distinct) == 5 {
							c.Nontrivial(s)
						}
						d := map[string]any{"id": s}
						if err != nil {
							c.Violation("C10:NewExtendedSpatialID:error-on-valid-input", d)
							return
						}
						c.Outcome(o.ID())
						if o.ID() != s {
							d["got"] = o.ID()
							c.Violation("C10:ExtendedSpatialID.ID:print-differs-from-parsed-string", d)
						}
						if !reflect.DeepEqual(o.FieldParams(), []int64{h, x, y, v, f}) {
							d["got"] = o.FieldParams()
							c.Violation("C10:ExtendedSpatialID.FieldParams:wrong-components", d)
						}
						if o.HZoom() != h || o.X() != x || o.Y() != y || o.VZoom() != v || o.Z() != f {
							c.Violation("C10:ExtendedSpatialID.getters:wrong-components", d)
						}
						if g := transform.GetVoxelIDfromSpatialID(s); !reflect.DeepEqual(g, []int64{x, y, f}) {
							d["got"] = g
							c.Violation("C10:GetVoxelIDfromSpatialID:wrong-components", d)
						}
						var o2 object.ExtendedSpatialID
						o2.SetZoom(h, v)
						o2.SetX(x)
						o2.SetY(y)
						o2.SetZ(f)
						if o2.ID() != s {
							c.Violation("C10:ExtendedSpatialID.setters:print-differs", d)
						}
					}},
				{Name: "notation-lists", Serial: true, Bounds: engine.Bounds{InputDev: -1},
					Rule: "full product z x list shape (length 0..3 with repeats) over IDs with distinct components: spatial->extended->spatial and extended->spatial->extended are identities, positional, order and length preserved; non-trivial = distinct lists of length >= 2",
					Body: func(c *engine.Ctx) {
						z := zs[c.In("z", len(zs))]
						hx := alpha.HIdx(z)
						fs := alpha.VIdx(z)
						mk := func(i int) ref.Vox {
							return ref.Vox{H: z, X: hx[i%len(hx)], Y: hx[(i+1)%len(hx)], V: z, F: fs[(i+2)%len(fs)]}
						}
						n := c.In("len", 4)
						var list []ref.Vox
						for i := 0; i < n; i++ {
							list = append(list, mk(c.In("elem", 5)*2+1))
						}
						sp := make([]string, n)
						ex := make([]string, n)
						for i, v := range list {
							sp[i], ex[i] = v.Spatial(), v.Ext()
						}
						gotEx, err1 := shape.ConvertSpatialIdsToExtendedSpatialIds(sp)
						gotSp, err2 := shape.ConvertExtendedSpatialIdsToSpatialIds(ex)
						c.Observe("%v -> %v / %v -> %v", sp, gotEx, ex, gotSp)
						if n >= 2 {
							c.Nontrivial(fmt.Sprint(sp))
						}
						c.Outcome(fmt.Sprint(gotEx))
						d := map[string]any{"spatial": sp, "extended": ex, "gotExtended": gotEx, "gotSpatial": gotSp}
						if err1 != nil || err2 != nil {
							c.Violation("C10:notation-conversion:error-on-valid-input", d)
							return
						}
						if !eqStrs(gotEx, ex) {
							c.Violation("C10:ConvertSpatialIdsToExtendedSpatialIds:not-the-component-permutation", d)
						}
						if !eqStrs(gotSp, sp) {
							c.Violation("C10:ConvertExtendedSpatialIdsToSpatialIds:not-the-component-permutation", d)
						}
						back, _ := shape.ConvertExtendedSpatialIdsToSpatialIds(gotEx)
						if !eqStrs(back, sp) {
							c.Violation("C10:notation-roundtrip:not-identity", d)
						}
					}},
				{Name: "mixed-zoom-notation-lists", Serial: true, Bounds: engine.Bounds{InputDev: -1},
					Rule: "full product of ordered zoom pairs (z1, z2) in 0..35 x 0..35 x 2 x 2 index choices, and of ordered zoom triples over {0,1,2,3,10,13,20,21,30,31,35} (one-digit zooms that are textual prefixes of two-digit zooms, in every order): both notation conversions are the positional component permutation on every entry, length and order preserved, round trip is the identity; non-trivial = distinct lists in which the text of one entry's zoom is a proper prefix of another's",
					Body: func(c *engine.Ctx) {
						mk := func(z int64, i int) ref.Vox {
							hx := alpha.HIdx(z)
							fs := alpha.VIdx(z)
							return ref.Vox{H: z, X: hx[i%len(hx)], Y: hx[(i+1)%len(hx)], V: z, F: fs[(i+2)%len(fs)]}
						}
						var list []ref.Vox
						if c.In("arity", 2) == 0 {
							z1 := alpha.Zall[c.In("z1", len(alpha.Zall))]
							z2 := alpha.Zall[c.In("z2", len(alpha.Zall))]
							list = []ref.Vox{mk(z1, c.In("e1", 2)*2+1), mk(z2, c.In("e2", 2)*2+1)}
						} else {
							zt := []int64{0, 1, 2, 3, 10, 13, 20, 21, 30, 31, 35}
							for k := 0; k < 3; k++ {
								list = append(list, mk(zt[c.In("z", len(zt))], 2*k+1))
							}
						}
						n := len(list)
						sp := make([]string, n)
						ex := make([]string, n)
						prefix := false
						for i, v := range list {
							sp[i], ex[i] = v.Spatial(), v.Ext()
							for _, w := range list {
								a, b := fmt.Sprint(v.H), fmt.Sprint(w.H)
								if len(a) < len(b) && b[:len(a)] == a {
									prefix = true
								}
							}
						}
						gotEx, err1 := shape.ConvertSpatialIdsToExtendedSpatialIds(sp)
						gotSp, err2 := shape.ConvertExtendedSpatialIdsToSpatialIds(ex)
						c.Observe("%v -> %v / %v -> %v", sp, gotEx, ex, gotSp)
						if prefix {
							c.Nontrivial(fmt.Sprint(sp))
						}
						c.Outcome(fmt.Sprint(gotEx))
						d := map[string]any{"spatial": sp, "extended": ex, "gotExtended": gotEx, "gotSpatial": gotSp}
						if err1 != nil || err2 != nil {
							c.Violation("C10:notation-conversion:error-on-valid-input[mixed-zooms]", d)
							return
						}
						if !eqStrs(gotEx, ex) {
							c.Violation("C10:ConvertSpatialIdsToExtendedSpatialIds:not-the-component-permutation[mixed-zooms]", d)
						}
						if !eqStrs(gotSp, sp) {
							c.Violation("C10:ConvertExtendedSpatialIdsToSpatialIds:not-the-component-permutation[mixed-zooms]", d)
						}
						back, _ := shape.ConvertExtendedSpatialIdsToSpatialIds(gotEx)
						if !eqStrs(back, sp) {
							c.Violation("C10:notation-roundtrip:not-identity[mixed-zooms]", d)
						}
					}},
				{Name: "expansion", Serial: true, Bounds: engine.Bounds{InputDev: -1},
					Rule: "full product h x v with |h-v| <= 4 x x,y in HIdxSmall(h) x f in VIdx(v): ConvertExtendedSpatialIDToSpatialIDs is duplicate-free, all at max(h,v), count 4^d or 2^d, and its union is exactly the voxel (ref.ChangeZoom); the caller's object prints the same ID afterwards and expands to the same list a second time; non-trivial = distinct IDs with h != v",
					Body: func(c *engine.Ctx) {
						h := zs[c.In("h", len(zs))]
						dz := int64(c.In("dz", 9)) - 4
						v := h + dz
						if v < 0 || v > 35 {
							c.Skip("v-out-of-range")
						}
						hx := alpha.HIdxSmall(h)
						x := hx[c.In("x", len(hx))]
						y := hx[c.In("y", len(hx))]
						fs := alpha.VIdx(v)
						f := fs[c.In("f", len(fs))]
						in := ref.Vox{H: h, X: x, Y: y, V: v, F: f}
						// the same query through ONE object that is re-used for every execution (parser-reuse pattern:
						// ResetExtendedSpatialID, and the setters), which must give the same answer as a fresh object.
						// The re-used object is also the LAST one queried by the previous execution, so two
						// consecutive library calls see the same pointer with different contents.
						reusedExt.ResetExtendedSpatialID(in.Ext())
						gotR := transform.ConvertExtendedSpatialIDToSpatialIDs(reusedExt)
						o, _ := object.NewExtendedSpatialID(in.Ext())
						got := transform.ConvertExtendedSpatialIDToSpatialIDs(o)
						// the caller's object must still print the five numbers it was parsed from, and a second
						// expansion of the same object must give the same list
						if after := o.ID(); after != in.Ext() {
							c.Violation("C10:ConvertExtendedSpatialIDToSpatialIDs:modifies-the-callers-object", map[string]any{"id": in.Ext(), "object_prints_afterwards": after})
						} else if again := transform.ConvertExtendedSpatialIDToSpatialIDs(o); !eqStrs(sortedCopy(again), sortedCopy(got)) {
							c.Violation("C10:ConvertExtendedSpatialIDToSpatialIDs:second-expansion-of-the-same-object-differs", map[string]any{"id": in.Ext(), "first": head(got, 6), "second": head(again, 6)})
						}
						reusedExt2.SetZoom(h, v)
						reusedExt2.SetX(x)
						reusedExt2.SetY(y)
						reusedExt2.SetZ(f)
						gotS := transform.ConvertExtendedSpatialIDToSpatialIDs(reusedExt2)
						reusedExt.ResetExtendedSpatialID(in.Ext())
						transform.ConvertExtendedSpatialIDToSpatialIDs(reusedExt)
						if !eqStrs(sortedCopy(gotR), sortedCopy(got)) || !eqStrs(sortedCopy(gotS), sortedCopy(got)) {
							c.Violation("C10:ConvertExtendedSpatialIDToSpatialIDs:re-used-object-gives-a-different-expansion", map[string]any{"id": in.Ext(), "fresh": head(got, 6), "reset": head(gotR, 6), "setters": head(gotS, 6)})
						}
						t := h
						if v > t {
							t = v
						}
						want := map[string]bool{}
						for _, w := range in.ChangeZoom(t, t) {
							want[w.Spatial()] = true
						}
						c.Observe("%s -> %d", in.Ext(), len(got))
						if h != v {
							c.Nontrivial(in.Ext())
						}
						c.Outcome(fmt.Sprint(head(got, 2)))
						d := map[string]any{"id": in.Ext(), "got": head(got, 8), "want_n": len(want)}
						if dp := dupOf(got); dp != "" {
							c.Violation("C10:ConvertExtendedSpatialIDToSpatialIDs:duplicate", d)
						}
						if len(got) != len(want) {
							c.Violation("C10:ConvertExtendedSpatialIDToSpatialIDs:wrong-count", d)
						}
						for _, g := range got {
							if !want[g] {
								d["unexpected"] = g
								c.Violation("C10:ConvertExtendedSpatialIDToSpatialIDs:region-differs", d)
								break
							}
						}
					}},
			}
		},
	})
}

func eqStrs(a, b []string) bool {
	if len(a) != len(b) {
		return false
	}
	for i := range a {
		if a[i] != b[i] {
			return false
		}
	}
	return true
}

var (
	reusedExt  = &object.ExtendedSpatialID{}
	reusedExt2 = &object.ExtendedSpatialID{}
)
