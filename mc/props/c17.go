package props

import (
	"fmt"
	"math"
	"math/big"
	"sort"

	"github.com/trajectoryjp/spatial_id_go/v4/common/object"
	"github.com/trajectoryjp/spatial_id_go/v4/transform"

	"verif/mc/alpha"
	"verif/mc/engine"
	"verif/mc/ref"
)

// R4: binary subdivision of [min,max) into 2^z cells, exact in big.Rat.

// subdivIndex returns clamp(floor((a-min)/(max-min)*2^z), 0, 2^z-1) and the
// distance (in metres, float) from a to the nearest cell boundary.
func subdivIndex(a, min, max float64, z int64) (idx int64, distToBoundary float64) {
	ra := new(big.Rat).SetFloat64(a)
	rmin := new(big.Rat).SetFloat64(min)
	rng := new(big.Rat).SetFloat64(max)
	rng.Sub(rng, rmin)
	pos := new(big.Rat).Sub(ra, rmin)
	pos.Quo(pos, rng)
	pos.Mul(pos, new(big.Rat).SetInt(new(big.Int).Lsh(big.NewInt(1), uint(z))))
	fl := new(big.Int)
	m := new(big.Int)
	fl.DivMod(pos.Num(), pos.Denom(), m)
	frac := new(big.Rat).Sub(pos, new(big.Rat).SetInt(fl))
	ff, _ := frac.Float64()
	cell := (max - min) / math.Ldexp(1, int(z))
	distToBoundary = math.Min(ff, 1-ff) * cell
	top := new(big.Int).Lsh(big.NewInt(1), uint(z))
	top.Sub(top, big.NewInt(1))
	if fl.Sign() < 0 {
		return 0, math.Inf(1)
	}
	if fl.Cmp(top) > 0 {
		return top.Int64(), math.Inf(1)
	}
	idx = fl.Int64()
	if idx == 0 && a < min || idx == top.Int64() && a >= max {
		distToBoundary = math.Inf(1)
	}
	return
}

// haltingExact reports whether repeated float halving of [min,max) z times
// produces exact borders (then the exact reference is decisive everywhere).
func halvingExact(min, max float64, z int64) bool {
	r := max - min
	fr, _ := math.Frexp(r)
	if fr != 0.5 {
		return false
	}
	cell := r / math.Ldexp(1, int(z))
	if math.Mod(min, cell) != 0 {
		return false
	}
	return math.Max(math.Abs(min), math.Abs(max))/cell < math.Ldexp(1, 52)
}

type hrange struct{ min, max float64 }

const c17QuickRanges = 7

var c17Ranges = []hrange{{-256, 256}, {0, 1024}, {-100, 300.5}, {0, 1000.0 / 3}, {-33554432, 33554432}, {5, 5 + 1.0/1024}, {-1, 7}}

func init() {
	engine.Register(&engine.Check{
		ID:        "C17",
		Title:     "Binary-subdivision altitude IDs cover the voxel and stay inside the height range",
		Technique: "exhaustive choice-tree enumeration (E1) of voxels x output zooms x height ranges (dyadic and non-dyadic; voxels inside, straddling, outside) in both directions against an exact rational subdivision reference",
		Assumptions: []string{
			"voxels, zooms and ranges outside the alphabets are not covered; runs longer than 4096 cells are skipped and counted",
			"for ranges whose repeated float halving is not exact, an altitude within 64 ulp of a cell boundary may fall in either neighbouring cell (undecided band)",
		},
		Phases: func(tier string) []engine.Phase {
			vzs := alpha.Zedge
			ozs := []int64{0, 1, 2, 3, 4, 5, 7, 8, 9, 12, 20, 35}
			allCellsUpTo := int64(6)
			bzs := []int64{0, 1, 2, 3, 4, 5, 6, 12, 20, 30, 35}
			sharded := false
			if tier == "thorough" {
				vzs = alpha.Zall
				ozs = alpha.Zall
				allCellsUpTo = 9
				bzs = []int64{0, 1, 2, 3, 4, 5, 6, 7, 8, 9, 12, 20, 30, 35}
				sharded = true
				if len(c17Ranges) == c17QuickRanges {
					// more ranges: negative-only, tiny, huge, a range starting at a non-representable decimal, one-ulp-wide steps
					c17Ranges = append(c17Ranges, hrange{-1000, -10}, hrange{0.1, 0.7}, hrange{-1e-3, 1e-3}, hrange{0, 1e9}, hrange{-8192.5, 8191.25}, hrange{1, 3})
				}
			}
			return []engine.Phase{
				{Name: "voxel-to-bits", Serial: !sharded, ShardDepth: 2, Bounds: engine.Bounds{InputDev: -1},
					Rule: "full product v x f in VIdx(v) u cells around each range end x output zoom x range: the vertical IDs are exactly the contiguous run [idx(bottom), idx(top)] of the exact subdivision, within 0..2^z-1 (clamped); spatial-ID API agrees when h = v; non-trivial = distinct cases whose run has >= 2 cells or is clamped",
					Body: func(c *engine.Ctx) {
						v := vzs[c.In("v", len(vzs))]
						z := ozs[c.In("outZoom", len(ozs))]
						rg := c17Ranges[c.In("range", len(c17Ranges))]
						fs := append([]int64{}, alpha.VIdx(v)...)
						for _, a := range []float64{rg.min, rg.max, (rg.min + rg.max) / 2} {
							k := ref.AltIndex(a, v)
							fs = append(fs, k-1, k, k+1)
						}
						fs = dedupeI(fs)
						f := fs[c.In("f", len(fs))]
						m := int64(1) << uint(v)
						if f < -m || f >= m {
							c.Skip("f-out-of-range")
						}
						bottom := ref.AltBoundary(f, v)
						top := ref.AltBoundary(f+1, v)
						lo, dlo := subdivIndex(bottom, rg.min, rg.max, z)
						hi, dhi := subdivIndex(top, rg.min, rg.max, z)
						if hi-lo+1 > 4096 {
							c.Skip("run-longer-than-4096")
						}
						id := ref.Vox{H: 6, X: 24, Y: 53, V: v, F: f}
						gs, err := transform.ConvertExtendedSpatialIDsToQuadkeysAndVerticalIDs([]string{id.Ext()}, 6, z, rg.max, rg.min)
						call := fmt.Sprintf("transform.ConvertExtendedSpatialIDsToQuadkeysAndVerticalIDs([%q], 6, %d, %v, %v)", id.Ext(), z, rg.max, rg.min)
						d := map[string]any{"call": call, "want_lo": lo, "want_hi": hi}
						if err != nil || len(gs) != 1 {
							c.Violation("C17:voxel-to-bits:error-on-valid-input", d)
							return
						}
						var got []int64
						for _, p := range gs[0].InnerIDList() {
							if p[0] != ref.Quadkey(6, 24, 53) {
								c.Violation("C17:voxel-to-bits:wrong-quadkey", d)
							}
							got = append(got, p[1])
						}
						sort.Slice(got, func(i, j int) bool { return got[i] < got[j] })
						c.Observe("%s -> %v", call, head64(got, 6))
						if hi > lo || math.IsInf(dlo, 1) || math.IsInf(dhi, 1) {
							c.Nontrivial(call)
						}
						c.Outcome(fmt.Sprint(len(got)))
						d["got"] = head64(got, 10)
						if gs[0].VerticalZoom() != z || gs[0].MaxHeight() != rg.max || gs[0].MinHeight() != rg.min {
							c.Violation("C17:voxel-to-bits:group-does-not-echo-parameters", d)
						}
						top2 := (int64(1) << uint(z)) - 1
						for i, g := range got {
							if g < 0 || g > top2 {
								c.Violation("C17:voxel-to-bits:index-outside-0..2^z-1", d)
								return
							}
							if i > 0 && g != got[i-1]+1 {
								c.Violation("C17:voxel-to-bits:not-a-contiguous-duplicate-free-run", d)
								return
							}
						}
						if len(got) == 0 {
							c.Violation("C17:voxel-to-bits:empty-result", d)
							return
						}
						tol := 0.0
						if !halvingExact(rg.min, rg.max, z) {
							tol = 64 * 2.3e-16 * math.Max(math.Max(math.Abs(rg.min), math.Abs(rg.max)), math.Max(math.Abs(bottom), math.Abs(top)))
							c.Count("inexact_halving_cases")
						}
						okLo := got[0] == lo || (tol > 0 && dlo <= tol && (got[0] == lo-1 || got[0] == lo+1))
						okHi := got[len(got)-1] == hi || (tol > 0 && dhi <= tol && (got[len(got)-1] == hi-1 || got[len(got)-1] == hi+1))
						if !okLo || !okHi {
							d["bottom"], d["top"], d["dist_lo"], d["dist_hi"], d["tol"] = bottom, top, dlo, dhi, tol
							c.Violation("C17:voxel-to-bits:run-differs-from-exact-subdivision", d)
						}
					}},
				{Name: "bits-to-voxels", Serial: !sharded, ShardDepth: 2, Bounds: engine.Bounds{InputDev: -1},
					Rule: "full product bit zoom (0..6, thorough 0..9: all cells; above: edge cells of zooms 12, 20, 30, 35 — at the fine ones a short run sits at output indices beyond 2^31) x cell x output vertical zoom x range: the returned vertical indices form a contiguous run covering the cell's altitude interval and not exceeding it by more than one index; non-trivial = distinct cases whose run has >= 2 indices",
					Body: func(c *engine.Ctx) {
						bz := bzs[c.In("bitZoom", len(bzs))]
						n := int64(1) << uint(bz)
						var cells []int64
						if bz <= allCellsUpTo {
							cells = alpha.Seq(0, n-1)
						} else {
							cells = []int64{0, 1, n / 2, n - 2, n - 1}
						}
						k := cells[c.In("cell", len(cells))]
						ov := vzs[c.In("outV", len(vzs))]
						rg := c17Ranges[c.In("range", len(c17Ranges))]
						// exact interval of the cell
						rmin := new(big.Rat).SetFloat64(rg.min)
						rng := new(big.Rat).SetFloat64(rg.max)
						rng.Sub(rng, rmin)
						cellR := new(big.Rat).Quo(rng, new(big.Rat).SetInt(new(big.Int).Lsh(big.NewInt(1), uint(bz))))
						loR := new(big.Rat).Add(rmin, new(big.Rat).Mul(cellR, big.NewRat(k, 1)))
						hiR := new(big.Rat).Add(loR, cellR)
						scale := new(big.Rat)
						if ov >= 25 {
							scale.SetInt(new(big.Int).Lsh(big.NewInt(1), uint(ov-25)))
						} else {
							scale.SetFrac(big.NewInt(1), new(big.Int).Lsh(big.NewInt(1), uint(25-ov)))
						}
						fl := func(r *big.Rat) int64 {
							q, m := new(big.Int), new(big.Int)
							q.DivMod(r.Num(), r.Denom(), m)
							return q.Int64()
						}
						wlo := fl(new(big.Rat).Mul(loR, scale))
						whiIncl := fl(new(big.Rat).Mul(hiR, scale)) // index containing the (exclusive) top
						if whiIncl-wlo+1 > 4096 {
							c.Skip("run-longer-than-4096")
						}
						q := object.NewQuadkeyAndVerticalID(6, ref.Quadkey(6, 24, 53), bz, k, rg.max, rg.min)
						qBefore := snapObjects([]*object.QuadkeyAndVerticalID{q})
						ids, err := transform.ConvertQuadkeysAndVerticalIDsToExtendedSpatialIDs([]*object.QuadkeyAndVerticalID{q}, 6, ov)
						call := fmt.Sprintf("transform.ConvertQuadkeysAndVerticalIDsToExtendedSpatialIDs([{6,%d,%d,%d,%v,%v}], 6, %d)", ref.Quadkey(6, 24, 53), bz, k, rg.max, rg.min, ov)
						d := map[string]any{"call": call, "want_lo": wlo, "want_hi_incl_top": whiIncl}
						if snapObjects([]*object.QuadkeyAndVerticalID{q}) != qBefore {
							c.Violation("C17:bits-to-voxels:modifies-the-callers-request-object", d)
						}
						if err != nil {
							c.Violation("C17:bits-to-voxels:error-on-valid-input", d)
							return
						}
						var got []int64
						for _, id := range ids {
							vx, ok := ref.ParseExt(id)
							if !ok || vx.H != 6 || vx.X != 24 || vx.Y != 53 || vx.V != ov {
								d["bad"] = id
								c.Violation("C17:bits-to-voxels:wrong-footprint-or-zoom", d)
								return
							}
							got = append(got, vx.F)
						}
						sort.Slice(got, func(i, j int) bool { return got[i] < got[j] })
						c.Observe("%s -> %v", call, head64(got, 6))
						if len(got) >= 2 {
							c.Nontrivial(call)
						}
						c.Outcome(fmt.Sprint(len(got)))
						d["got"] = head64(got, 10)
						if len(got) == 0 {
							c.Violation("C17:bits-to-voxels:empty-result", d)
							return
						}
						for i := 1; i < len(got); i++ {
							if got[i] != got[i-1]+1 {
								c.Violation("C17:bits-to-voxels:not-a-contiguous-duplicate-free-run", d)
								return
							}
						}
						// covering: every index intersecting [lo,hi) is present; slack of one index either side
						// (float evaluation of the cell bounds; top bound inclusive by construction)
						needHi := whiIncl
						if new(big.Rat).Mul(hiR, scale).IsInt() {
							needHi = whiIncl - 1
						}
						// the implementation evaluates the cell bounds in float64: when the range is not dyadic a
						// bound within 64 ulp of an index boundary may land on either side of it
						fr := func(r *big.Rat) float64 {
							q, m := new(big.Int), new(big.Int)
							q.DivMod(r.Num(), r.Denom(), m)
							f, _ := new(big.Rat).Sub(r, new(big.Rat).SetInt(q)).Float64()
							return f
						}
						if !halvingExact(rg.min, rg.max, bz) {
							cellM := math.Ldexp(1, int(25-ov))
							tol := 64 * 2.3e-16 * math.Max(math.Abs(rg.min), math.Abs(rg.max))
							if (1-fr(new(big.Rat).Mul(loR, scale)))*cellM <= tol {
								wlo++
								c.Count("lower_bound_in_band")
							}
							if fr(new(big.Rat).Mul(hiR, scale))*cellM <= tol && needHi == whiIncl {
								needHi--
								c.Count("upper_bound_in_band")
							}
						}
						if got[0] > wlo || got[len(got)-1] < needHi {
							c.Violation("C17:bits-to-voxels:run-does-not-cover-the-cell-interval", d)
						}
						if got[0] < wlo-2 || got[len(got)-1] > whiIncl+1 {
							c.Violation("C17:bits-to-voxels:run-exceeds-the-cell-interval", d)
						}
					}},
				{Name: "voxel-to-bits-lists", Serial: true, Bounds: engine.Bounds{InputDev: -1},
					Rule: "lists of three vertically stacked voxels (and a coarser voxel containing them) of one column in all 6 orders x ranges x output zooms in one call: the pairs of the call = union of the single-voxel results (relational), no pair twice; the same call repeated after a call that fails part-way (a malformed ID after the voxels) returns the same pairs; non-trivial = distinct (order, range, zoom) whose union has >= 3 cells",
					Body: func(c *engine.Ctx) {
						v := []int64{22, 23, 25}[c.In("v", 3)]
						z := []int64{5, 9, 12}[c.In("outZoom", 3)]
						rg := c17Ranges[c.In("range", len(c17Ranges))]
						f0 := ref.AltIndex((rg.min+rg.max)/2, v)
						vox := []ref.Vox{{H: 6, X: 24, Y: 53, V: v, F: f0}, {H: 6, X: 24, Y: 53, V: v, F: f0 + 1}, {H: 6, X: 24, Y: 53, V: v, F: f0 + 2}, {H: 6, X: 24, Y: 53, V: v - 2, F: f0 >> 2}}
						perm := [][]int{{0, 1, 2}, {0, 2, 1}, {1, 0, 2}, {1, 2, 0}, {2, 0, 1}, {2, 1, 0}, {0, 2, 3}, {2, 0, 3}, {3, 0, 2}}[c.In("order", 9)]
						var ids []string
						want := map[int64]bool{}
						for _, i := range perm {
							ids = append(ids, vox[i].Ext())
							one, err := transform.ConvertExtendedSpatialIDsToQuadkeysAndVerticalIDs([]string{vox[i].Ext()}, 6, z, rg.max, rg.min)
							if err != nil {
								c.Skip("conversion-error")
							}
							for _, p := range pairsOf(one) {
								want[p.v] = true
							}
						}
						if len(want) > 4096 {
							c.Skip("run-longer-than-4096")
						}
						gs, err := transform.ConvertExtendedSpatialIDsToQuadkeysAndVerticalIDs(ids, 6, z, rg.max, rg.min)
						if err != nil {
							c.Skip("conversion-error")
						}
						got := pairsOf(gs)
						c.Observe("%v %d %v -> %d", ids, z, rg, len(got))
						if len(want) >= 3 {
							c.Nontrivial(fmt.Sprint(ids, z, rg))
						}
						gm := map[int64]bool{}
						for _, p := range got {
							if gm[p.v] {
								c.Violation("C17:voxel-to-bits:pair-reported-twice-in-one-call", map[string]any{"ids": ids, "zoom": z, "range": fmt.Sprint(rg), "cell": p.v})
								return
							}
							gm[p.v] = true
						}
						for k := range want {
							if !gm[k] {
								c.Violation("C17:voxel-to-bits:list-result-differs-from-union-of-single-results", map[string]any{"ids": ids, "zoom": z, "range": fmt.Sprint(rg), "missing_cell": k, "got_n": len(gm), "want_n": len(want)})
								return
							}
						}
						if len(gm) != len(want) {
							c.Violation("C17:voxel-to-bits:list-result-differs-from-union-of-single-results", map[string]any{"ids": ids, "zoom": z, "range": fmt.Sprint(rg), "got_n": len(gm), "want_n": len(want)})
						}
						// a call that fails part-way (the same voxels, then a malformed ID) must leave nothing behind:
						// the same valid call afterwards returns the same pairs
						if _, err := transform.ConvertExtendedSpatialIDsToQuadkeysAndVerticalIDs(append(append([]string{}, ids...), "6/24/53/x/1"), 6, z, rg.max, rg.min); err != nil {
							c.Count("failing_call_then_valid_call")
							gs2, err2 := transform.ConvertExtendedSpatialIDsToQuadkeysAndVerticalIDs(ids, 6, z, rg.max, rg.min)
							after := map[int64]bool{}
							for _, p := range pairsOf(gs2) {
								after[p.v] = true
							}
							same := err2 == nil && len(after) == len(gm)
							for k := range gm {
								if !after[k] {
									same = false
								}
							}
							if !same {
								c.Violation("C17:voxel-to-bits:result-changes-after-a-failed-call", map[string]any{"ids": ids, "zoom": z, "range": fmt.Sprint(rg), "before_n": len(gm), "after_n": len(after), "err": fmt.Sprint(err2)})
							}
						}
					}},
				{Name: "bits-to-voxels-lists", Serial: true, Bounds: engine.Bounds{InputDev: -1},
					Rule: "lists of two bit-form elements in one call: same (zoom, cell) with two different height ranges, different cells with one range, and both orders x output zooms: the result must be the union of the two single-element results (relational); non-trivial = distinct lists whose elements have different ranges",
					Body: func(c *engine.Ctx) {
						bz := []int64{3, 6, 7}[c.In("bitZoom", 3)]
						n := int64(1) << uint(bz)
						k1 := []int64{0, n / 2, n - 1}[c.In("cell1", 3)]
						k2 := []int64{0, n / 2, n - 1}[c.In("cell2", 3)]
						r1 := c17Ranges[c.In("range1", len(c17Ranges))]
						r2 := c17Ranges[c.In("range2", len(c17Ranges))]
						ov := []int64{20, 24, 26}[c.In("outV", 3)]
						mk := func(k int64, r hrange) *object.QuadkeyAndVerticalID {
							return object.NewQuadkeyAndVerticalID(6, ref.Quadkey(6, 24, 53), bz, k, r.max, r.min)
						}
						span := func(r hrange) float64 { return (r.max - r.min) / float64(n) / math.Ldexp(1, int(25-ov)) }
						if span(r1) > 2000 || span(r2) > 2000 {
							c.Skip("run-longer-than-2000")
						}
						one1, e1 := transform.ConvertQuadkeysAndVerticalIDsToExtendedSpatialIDs([]*object.QuadkeyAndVerticalID{mk(k1, r1)}, 6, ov)
						one2, e2 := transform.ConvertQuadkeysAndVerticalIDsToExtendedSpatialIDs([]*object.QuadkeyAndVerticalID{mk(k2, r2)}, 6, ov)
						both, e3 := transform.ConvertQuadkeysAndVerticalIDsToExtendedSpatialIDs([]*object.QuadkeyAndVerticalID{mk(k1, r1), mk(k2, r2)}, 6, ov)
						if e1 != nil || e2 != nil || e3 != nil {
							c.Skip("conversion-error")
						}
						c.Observe("%d %d %d %v %v %d -> %d", bz, k1, k2, r1, r2, ov, len(both))
						if r1 != r2 {
							c.Nontrivial(fmt.Sprint(bz, k1, k2, r1, r2, ov))
						}
						want := append(append([]string{}, one1...), one2...)
						m, e := diffSets(both, want)
						if len(m)+len(e) > 0 || dupOf(both) != "" {
							c.Violation("C17:bits-to-voxels:list-result-differs-from-union-of-single-results", map[string]any{
								"bitZoom": bz, "cell1": k1, "cell2": k2, "range1": fmt.Sprint(r1), "range2": fmt.Sprint(r2), "outV": ov, "missing": head(m, 6), "extra": head(e, 6)})
						}
					}},
				{Name: "range-errors", Serial: true, Bounds: engine.Bounds{InputDev: -1},
					Rule: "maxHeight < minHeight in both directions for each range reversed: error required; non-trivial = distinct reversed ranges",
					Body: func(c *engine.Ctx) {
						rg := c17Ranges[c.In("range", len(c17Ranges))]
						_, e1 := transform.ConvertExtendedSpatialIDsToQuadkeysAndVerticalIDs([]string{"6/24/53/26/51"}, 6, 7, rg.min, rg.max)
						_, e2 := transform.ConvertQuadkeysAndVerticalIDsToExtendedSpatialIDs([]*object.QuadkeyAndVerticalID{object.NewQuadkeyAndVerticalID(6, 2914, 7, 3, rg.min, rg.max)}, 6, 20)
						c.Nontrivial(fmt.Sprint(rg))
						c.Observe("%v %v %v", rg, e1, e2)
						if e1 == nil || e2 == nil {
							c.Violation("C17:reversed-range-accepted", map[string]any{"range": fmt.Sprint(rg)})
						}
					}},
			}
		},
	})
}

func head64(a []int64, n int) []int64 {
	if len(a) > n {
		return a[:n]
	}
	return a
}
