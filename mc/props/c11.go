package props

import (
	"fmt"
	"sort"

	"github.com/trajectoryjp/spatial_id_go/v4/common/object"
	"github.com/trajectoryjp/spatial_id_go/v4/transform"

	"verif/mc/alpha"
	"verif/mc/engine"
	"verif/mc/ref"
)

type qv struct{ q, v int64 }

func pairsOf(groups []*object.FromExtendedSpatialIDToQuadkeyAndVerticalID) (all []qv) {
	for _, g := range groups {
		for _, p := range g.InnerIDList() {
			all = append(all, qv{p[0], p[1]})
		}
	}
	return
}

func dupPair(ps []qv) (qv, bool) {
	seen := map[qv]bool{}
	for _, p := range ps {
		if seen[p] {
			return p, true
		}
		seen[p] = true
	}
	return qv{}, false
}

func wantPairs(in []ref.Vox, oh, ov int64) map[qv]bool {
	w := map[qv]bool{}
	for _, x := range in {
		for _, y := range x.ChangeZoom(oh, ov) {
			w[qv{ref.Quadkey(oh, y.X, y.Y), y.F}] = true
		}
	}
	return w
}

func samePairs(got []qv, want map[qv]bool) bool {
	g := map[qv]bool{}
	for _, p := range got {
		g[p] = true
		if !want[p] {
			return false
		}
	}
	return len(g) == len(want)
}

func init() {
	engine.Register(&engine.Check{
		ID:          "C11",
		Title:       "Quadkeys are the bit-interleaving of x and y, and the round trip is exact",
		Technique:   "exhaustive choice-tree enumeration (E1): all tiles of zooms 1..7 (thorough 1..10) and index classes of the zooms above up to 31 against a bit-interleave reference; round trips and zoom-changing conversions of short lists against the dyadic-box model",
		Assumptions: []string{"zoom differences above 3 and lists longer than 3 are not covered; index values outside the alphabet classes are not covered above zoom 7 (thorough: 10)", "reference: ref.Quadkey / ref.FromQuadkey / ref.ChangeZoom"},
		Phases: func(tier string) []engine.Phase {
			maxAll := int64(7)
			if tier == "thorough" {
				maxAll = 10
			}
			hz := []int64{7, 8, 15, 16, 24, 25, 26, 30, 31}
			if tier == "thorough" {
				hz = alpha.Seq(8, 31)
			}
			vz := []int64{0, 1, 25, 35}
			if tier == "thorough" {
				vz = []int64{0, 1, 2, 7, 16, 24, 25, 26, 34, 35}
			}
			return []engine.Phase{
				respellNotationPhase("C11", tier),
				{Name: "all-tiles", ShardDepth: 2, Bounds: engine.Bounds{InputDev: -1},
					Rule: "every tile (x,y) of zooms 1..maxAll: quadkey = bit interleave, 0 <= key < 4^z, inverse conversion returns (x,y); non-trivial = distinct tiles whose quadkey has a leading zero digit (x,y < 2^(z-1))",
					Body: func(c *engine.Ctx) {
						z := int64(c.In("z", int(maxAll))) + 1
						n := 1 << uint(z)
						x := int64(c.In("x", n))
						y := int64(c.In("y", n))
						v := ref.Vox{H: z, X: x, Y: y, V: 3, F: -2}
						gs, err := transform.ConvertExtendedSpatialIDsToQuadkeysAndVerticalIDs([]string{v.Ext()}, z, 3, 0, 0)
						want := ref.Quadkey(z, x, y)
						d := map[string]any{"id": v.Ext(), "want_quadkey": want}
						if err != nil || len(gs) != 1 || len(gs[0].InnerIDList()) != 1 {
							c.Violation("C11:ConvertExtendedSpatialIDsToQuadkeysAndVerticalIDs:unexpected-shape", d)
							return
						}
						p := gs[0].InnerIDList()[0]
						c.Observe("%s -> %v", v.Ext(), p)
						if x < int64(n/2) && y < int64(n/2) {
							c.Nontrivial(v.Ext())
						}
						c.Outcome(fmt.Sprint(z, p[0]))
						if p[0] != want || p[0] < 0 || p[0] >= int64(1)<<uint(2*z) || p[1] != -2 {
							d["got"] = p
							c.Violation("C11:quadkey:not-the-bit-interleave", d)
						}
						ids, err := transform.ConvertQuadkeysAndVerticalIDsToExtendedSpatialIDs(
							[]*object.QuadkeyAndVerticalID{object.NewQuadkeyAndVerticalID(z, want, 3, -2, 0, 0)}, z, 3)
						if err != nil || len(ids) != 1 || ids[0] != v.Ext() {
							d["got_ids"] = ids
							c.Violation("C11:ConvertQuadkeysAndVerticalIDsToExtendedSpatialIDs:inverse-differs", d)
						}
					}},
				{Name: "index-classes", ShardDepth: 2, Bounds: engine.Bounds{InputDev: -1},
					Rule: "full product z in zooms 7..31 x (x,y) in HIdx(z)^2 (alternating bit patterns, leading-zero keys) x v x f in VIdxSmall(v) x equal heights in {0, 100, -3.5} (index form): quadkey = interleave, round trip at the same zooms is the identity, every group echoes zooms and height parameters; non-trivial = distinct IDs",
					Body: func(c *engine.Ctx) {
						z := hz[c.In("z", len(hz))]
						hx := alpha.HIdx(z)
						x := hx[c.In("x", len(hx))]
						y := hx[c.In("y", len(hx))]
						v := vz[c.In("v", len(vz))]
						fs := alpha.VIdxSmall(v)
						f := fs[c.In("f", len(fs))]
						in := ref.Vox{H: z, X: x, Y: y, V: v, F: f}
						// index form = equal heights; the request's value must come back unchanged, whatever it is
						eqH := []float64{0, 100, -3.5}[c.In("equalHeights", 3)]
						gs, err := transform.ConvertExtendedSpatialIDsToQuadkeysAndVerticalIDs([]string{in.Ext()}, z, v, eqH, eqH)
						d := map[string]any{"id": in.Ext(), "max_height=min_height": eqH}
						if err != nil || len(gs) != 1 || len(gs[0].InnerIDList()) != 1 {
							c.Violation("C11:ConvertExtendedSpatialIDsToQuadkeysAndVerticalIDs:unexpected-shape", d)
							return
						}
						g := gs[0]
						p := g.InnerIDList()[0]
						c.Observe("%s -> %v", in.Ext(), p)
						c.Nontrivial(in.Ext())
						c.Outcome(fmt.Sprint(p))
						if p[0] != ref.Quadkey(z, x, y) || p[1] != f {
							d["got"] = p
							c.Violation("C11:quadkey:not-the-bit-interleave", d)
						}
						if g.QuadkeyZoom() != z || g.VerticalZoom() != v || g.MaxHeight() != eqH || g.MinHeight() != eqH {
							d["group_reports"] = fmt.Sprint(g.QuadkeyZoom(), g.VerticalZoom(), g.MaxHeight(), g.MinHeight())
							c.Violation("C11:group:does-not-echo-request-parameters", d)
						}
						ids, err := transform.ConvertQuadkeysAndVerticalIDsToExtendedSpatialIDs(
							[]*object.QuadkeyAndVerticalID{object.NewQuadkeyAndVerticalID(z, p[0], v, p[1], eqH, eqH)}, z, v)
						if err != nil || len(ids) != 1 || ids[0] != in.Ext() {
							d["got_ids"] = ids
							c.Violation("C11:roundtrip:not-identity", d)
						}
						// spatial wrapper (h == v only)
						if z == v {
							sp, err := transform.ConvertQuadkeysAndVerticalIDsToSpatialIDs(
								[]*object.QuadkeyAndVerticalID{object.NewQuadkeyAndVerticalID(z, p[0], v, p[1], 0, 0)}, z)
							if err != nil || len(sp) != 1 || sp[0] != in.Spatial() {
								d["got_spatial"] = sp
								c.Violation("C11:ConvertQuadkeysAndVerticalIDsToSpatialIDs:differs", d)
							}
							gs2, err := transform.ConvertSpatialIDsToQuadkeysAndVerticalIDs([]string{in.Spatial()}, z, v, eqH, eqH)
							if err == nil && len(gs2) == 1 && (gs2[0].MaxHeight() != eqH || gs2[0].MinHeight() != eqH) {
								c.Violation("C11:group:does-not-echo-request-parameters[spatial-form]", d)
							}
							if err != nil || len(pairsOf(gs2)) != 1 || pairsOf(gs2)[0] != (qv{p[0], p[1]}) {
								c.Violation("C11:ConvertSpatialIDsToQuadkeysAndVerticalIDs:differs-from-extended-form", d)
							}
						}
					}},
				{Name: "zoom-changing-lists", ShardDepth: 2, Bounds: engine.Bounds{InputDev: -1},
					Rule: "worlds (root + 1 level of descendants + twin across f=-1|0, 1 <= h <= 31) x lists of length 1..3 incl. repeated and nested IDs x output zooms within +-2 of the root (|dz| <= 3 from any member): pairs = zoom change per axis (model), no pair twice across groups, groups echo parameters; altitude-key form: same quadkeys; inverse of each pair set = zoom change; non-trivial = distinct (list, output zooms) with output zooms != input zooms",
					Body: func(c *engine.Ctx) {
						ws := worlds(tier)
						var use []world
						for _, w := range ws {
							if w.root.H >= 1 && w.root.H <= 29 {
								use = append(use, w)
							}
						}
						w := use[c.In("world", len(use))]
						pool := []ref.Vox{w.root}
						ch := w.root.ChangeZoom(w.root.H+1, w.root.V+1)
						pool = append(pool, ch[0], ch[len(ch)-1])
						if w.twin != nil {
							pool = append(pool, *w.twin)
						}
						// aliases: other voxels whose x, y (and f) numbers coincide with the root's at a different
						// zoom — a shortcut keyed on the numbers without the zoom confuses them
						pool = append(pool, ref.Vox{H: w.root.H + 1, X: w.root.X, Y: w.root.Y, V: w.root.V, F: w.root.F},
							ref.Vox{H: w.root.H + 1, X: w.root.X, Y: w.root.Y, V: w.root.V + 1, F: w.root.F})
						n := c.In("len", 3) + 1
						var list []ref.Vox
						for i := 0; i < n; i++ {
							list = append(list, pool[c.In("elem", len(pool))])
						}
						oh := w.root.H + int64(c.In("dh", 5)) - 2
						ov := w.root.V + int64(c.In("dv", 5)) - 2
						if oh < 1 || oh > 31 || ov < 0 || ov > 35 {
							c.Skip("output-zoom-out-of-range")
						}
						ids := ref.Exts(list)
						call := fmt.Sprintf("ConvertExtendedSpatialIDsToQuadkeysAndVerticalIDs(%s, %d, %d, 0, 0)", goList(ids), oh, ov)
						gs, err := transform.ConvertExtendedSpatialIDsToQuadkeysAndVerticalIDs(ids, oh, ov, 0, 0)
						d := map[string]any{"call": call}
						if err != nil {
							c.Violation("C11:ConvertExtendedSpatialIDsToQuadkeysAndVerticalIDs:error-on-valid-input", d)
							return
						}
						got := pairsOf(gs)
						want := wantPairs(list, oh, ov)
						c.Observe("%s -> %d pairs in %d groups", call, len(got), len(gs))
						if oh != w.root.H || ov != w.root.V {
							c.Nontrivial(call)
						}
						c.Outcome(fmt.Sprint(len(got), len(gs)))
						if c.WantSample() && n == 2 && oh != w.root.H {
							c.Sample(map[string]any{"call": call, "pairs": len(got), "groups": len(gs)})
						}
						if p, dup := dupPair(got); dup {
							d["dup"] = fmt.Sprint(p)
							c.Violation("C11:groups:pair-reported-twice", d)
						}
						if !samePairs(got, want) {
							d["got_n"], d["want_n"] = len(got), len(want)
							c.Violation("C11:ConvertExtendedSpatialIDsToQuadkeysAndVerticalIDs:pairs-differ-from-zoom-change-model", d)
						}
						for _, g := range gs {
							if g.QuadkeyZoom() != oh || g.VerticalZoom() != ov || g.MaxHeight() != 0 || g.MinHeight() != 0 || len(g.InnerIDList()) == 0 {
								c.Violation("C11:group:does-not-echo-request-parameters", d)
							}
						}
						// altitude-key form: horizontal part (key zoom = ov keeps the number of keys per voxel <= 2^3)
						ga, err := transform.ConvertExtendedSpatialIDsToQuadkeysAndAltitudekeys(ids, oh, ov, 25, 1<<24)
						if err == nil {
							qs := map[int64]bool{}
							for _, g := range ga {
								if g.QuadkeyZoom() != oh || g.AltitudekeyZoom() != ov || g.ZBaseExponent() != 25 || g.ZBaseOffset() != 1<<24 {
									c.Violation("C11:altitudekey-group:does-not-echo-request-parameters", d)
								}
								for _, p := range g.InnerIDList() {
									qs[p[0]] = true
								}
							}
							wq := map[int64]bool{}
							for p := range want {
								wq[p.q] = true
							}
							if len(qs) != len(wq) {
								c.Violation("C11:ConvertExtendedSpatialIDsToQuadkeysAndAltitudekeys:quadkeys-differ", d)
							}
							for q := range qs {
								if !wq[q] {
									c.Violation("C11:ConvertExtendedSpatialIDsToQuadkeysAndAltitudekeys:quadkeys-differ", d)
									break
								}
							}
						} else {
							c.Count("altitudekey_range_error")
						}
						// inverse: feed the pairs back at the root's zooms
						var back []*object.QuadkeyAndVerticalID
						keys := make([]qv, 0, len(want))
						for p := range want {
							keys = append(keys, p)
						}
						sort.Slice(keys, func(i, j int) bool { return keys[i].q < keys[j].q || keys[i].q == keys[j].q && keys[i].v < keys[j].v })
						var wantBack ref.Set = ref.Set{}
						total := int64(0)
						for _, p := range keys {
							back = append(back, object.NewQuadkeyAndVerticalID(oh, p.q, ov, p.v, 0, 0))
							x, y := ref.FromQuadkey(oh, p.q)
							vx := ref.Vox{H: oh, X: x, Y: y, V: ov, F: p.v}
							total += vx.ChangeZoomCount(w.root.H, w.root.V)
							if total <= 4096 {
								wantBack.Add(vx.ChangeZoom(w.root.H, w.root.V)...)
							}
						}
						if total > 4096 {
							c.Count("inverse_skipped_over_budget")
							return
						}
						backBefore := snapObjects(back)
						ids2, err := transform.ConvertQuadkeysAndVerticalIDsToExtendedSpatialIDs(back, w.root.H, w.root.V)
						if snapObjects(back) != backBefore {
							c.Violation("C11:ConvertQuadkeysAndVerticalIDsToExtendedSpatialIDs:modifies-the-callers-request-objects", d)
						}
						if err != nil {
							c.Violation("C11:ConvertQuadkeysAndVerticalIDsToExtendedSpatialIDs:error-on-valid-input", d)
							return
						}
						m, e := diffSets(ids2, canonSet(wantBack))
						if len(m)+len(e) > 0 || dupOf(ids2) != "" {
							d["missing"], d["extra"] = head(m, 5), head(e, 5)
							c.Violation("C11:ConvertQuadkeysAndVerticalIDsToExtendedSpatialIDs:differs-from-zoom-change-model", d)
						}
					}},
			}
		},
	})
}
