package props

import (
	"fmt"
	"sort"
	"strings"
	"time"

	"github.com/trajectoryjp/spatial_id_go/v4/integrate"

	"verif/mc/engine"
	"verif/mc/ref"
)

// The "VoxelSets" operation machine shared by C03, C04 and C09 (DESIGN 3.2):
// a state is a canonical set of extended IDs; operations are zoom changes and
// merges through the real library, plus driver edits (drop / add a voxel).

type world struct {
	name   string
	root   ref.Vox
	twin   *ref.Vox // vertical neighbour across f = -1|0 (nil if none)
	zoomsH []int64
	zoomsV []int64
	adds   []ref.Vox
}

func clampZooms(lo, hi int64) []int64 {
	var r []int64
	for z := lo; z <= hi; z++ {
		if z >= 0 && z <= 35 {
			r = append(r, z)
		}
	}
	return r
}

// worlds enumerates root voxels: zoom pairs x first/last column,row x f-root classes.
func worlds(tier string) []world {
	type hv struct{ h, v int64 }
	roots := []hv{{0, 0}, {1, 1}, {2, 0}, {0, 2}, {24, 25}, {33, 33}}
	if tier == "thorough" {
		roots = append(roots, hv{13, 16}, hv{25, 24}, hv{3, 3}, hv{31, 26}, hv{7, 30})
	}
	var ws []world
	for _, r := range roots {
		n := int64(1) << uint(r.h)
		m := int64(1) << uint(r.v)
		xs := [][2]int64{{0, n - 1}, {n - 1, 0}}
		if n == 1 {
			xs = xs[:1]
		}
		for pi, xy := range xs {
			seenF := map[int64]bool{}
			for _, f := range []int64{-1, 0, m - 1, -m} {
				if seenF[f] || (pi != 0 && f != -1 && f != 0) {
					continue
				}
				seenF[f] = true
				root := ref.Vox{H: r.h, X: xy[0], Y: xy[1], V: r.v, F: f}
				w := world{name: root.Ext(), root: root, zoomsH: clampZooms(r.h-1, r.h+3), zoomsV: clampZooms(r.v-1, r.v+3)}
				if f == -1 {
					t := ref.Vox{H: r.h, X: xy[0], Y: xy[1], V: r.v, F: 0}
					w.twin = &t
				} else if f == 0 && m >= 1 {
					t := ref.Vox{H: r.h, X: xy[0], Y: xy[1], V: r.v, F: -1}
					w.twin = &t
				}
				// add-alphabet: descendants of the root at +1 and +2 levels (corners), and the twin's child
				if r.h+1 <= 35 && r.v+1 <= 35 {
					ch := root.ChangeZoom(r.h+1, r.v+1)
					w.adds = append(w.adds, ch[0], ch[len(ch)-1], ch[len(ch)/2])
				}
				if r.h+2 <= 35 && r.v+2 <= 35 {
					g := root.ChangeZoom(r.h+2, r.v+2)
					w.adds = append(w.adds, g[0], g[len(g)-1], g[5])
				}
				if w.twin != nil && r.v+1 <= 35 {
					tc := w.twin.ChangeZoom(r.h, r.v+1)
					w.adds = append(w.adds, tc[0], tc[len(tc)-1])
				}
				// aliases: voxels at another zoom whose x, y, f numbers coincide with the root's (a shortcut
				// keyed on the numbers without the zoom would confuse them with the root)
				if r.h+1 <= 35 {
					w.adds = append(w.adds, ref.Vox{H: r.h + 1, X: root.X, Y: root.Y, V: r.v, F: root.F})
				}
				if r.v+1 <= 35 {
					w.adds = append(w.adds, ref.Vox{H: r.h, X: root.X, Y: root.Y, V: r.v + 1, F: root.F})
				}
				ws = append(ws, w)
			}
		}
	}
	return ws
}

type vmOp struct {
	kind string // "Z","M","drop","add"
	h, v int64
	idx  int
}

func (o vmOp) String() string {
	switch o.kind {
	case "Z", "M":
		return fmt.Sprintf("%s[%d,%d]", o.kind, o.h, o.v)
	case "drop":
		return fmt.Sprintf("drop#%d", o.idx)
	}
	return fmt.Sprintf("add#%d", o.idx)
}

func (w *world) ops() []vmOp {
	var ops []vmOp
	for _, h := range w.zoomsH {
		for _, v := range w.zoomsV {
			ops = append(ops, vmOp{kind: "Z", h: h, v: v})
		}
	}
	for _, h := range w.zoomsH {
		for _, v := range w.zoomsV {
			ops = append(ops, vmOp{kind: "M", h: h, v: v})
		}
	}
	for i := 0; i < 3; i++ {
		ops = append(ops, vmOp{kind: "drop", idx: i})
	}
	for i := range w.adds {
		ops = append(ops, vmOp{kind: "add", idx: i})
	}
	return ops
}

const (
	maxStateSize = 160
	maxZoomOut   = 2048
	maxUnitCells = 12000
)

func parseState(s []string) []ref.Vox {
	r := make([]ref.Vox, len(s))
	for i, x := range s {
		r[i] = ref.MustExt(x)
	}
	return r
}

func canonSet(s ref.Set) []string {
	r := ref.Exts(s.Sorted())
	return r
}

func sortedCopy(s []string) []string {
	r := append([]string(nil), s...)
	sort.Strings(r)
	return r
}

// dupOf returns a duplicated element of the list, or "".
func dupOf(s []string) string {
	seen := make(map[string]struct{}, len(s))
	for _, x := range s {
		if _, ok := seen[x]; ok {
			return x
		}
		seen[x] = struct{}{}
	}
	return ""
}

// diffSets describes the difference between two string sets.
func diffSets(got []string, want []string) (missing, extra []string) {
	g := map[string]bool{}
	for _, x := range got {
		g[x] = true
	}
	w := map[string]bool{}
	for _, x := range want {
		w[x] = true
		if !g[x] {
			missing = append(missing, x)
		}
	}
	for x := range g {
		if !w[x] {
			extra = append(extra, x)
		}
	}
	sort.Strings(missing)
	sort.Strings(extra)
	return
}

func head(s []string, n int) []string {
	if len(s) > n {
		return s[:n]
	}
	return s
}

func goList(s []string) string {
	q := make([]string, len(s))
	for i, x := range s {
		q[i] = fmt.Sprintf("%q", x)
	}
	return "[]string{" + strings.Join(q, ", ") + "}"
}

// mergeUnitCells predicts how many unit cells the library's merge enumerates.
func mergeUnitCells(in []ref.Vox, h, v int64) int64 {
	mh, mv := ref.MaxZooms(in)
	var n int64
	for _, x := range in {
		if x.H >= h && x.V >= v {
			n += x.ChangeZoomCount(mh, mv)
		}
	}
	return n
}

// checkZoom compares the library's zoom change of a list with R1.
func checkZoom(prop string, ids []string, vox []ref.Vox, h, v int64) (viol []engine.Violation, want ref.Set) {
	want = ref.ChangeZoomSet(vox, h, v)
	got, err := integrate.ChangeExtendedSpatialIdsZoom(ids, h, v)
	call := fmt.Sprintf("integrate.ChangeExtendedSpatialIdsZoom(%s, %d, %d)", goList(ids), h, v)
	if err != nil {
		return []engine.Violation{{Property: prop, Sig: prop + ":ChangeExtendedSpatialIdsZoom:error-on-valid-input", Detail: map[string]any{"call": call, "err": err.Error()}}}, want
	}
	if d := dupOf(got); d != "" {
		viol = append(viol, engine.Violation{Property: prop, Sig: prop + ":ChangeExtendedSpatialIdsZoom:duplicate-in-result", Detail: map[string]any{"call": call, "dup": d}})
	}
	wantL := canonSet(want)
	missing, extra := diffSets(got, wantL)
	if len(missing)+len(extra) > 0 {
		cls := classifyZoomDiff(vox, h, v)
		viol = append(viol, engine.Violation{Property: prop, Sig: prop + ":ChangeExtendedSpatialIdsZoom:result-set-differs-from-dyadic-model" + cls,
			Detail: map[string]any{"call": call, "missing": head(missing, 8), "extra": head(extra, 8), "got_n": len(got), "want_n": len(wantL)}})
	}
	// the same list with every entry repeated (reversed second copy): same set, still duplicate-free
	if len(ids) <= 64 {
		dbl := append([]string(nil), ids...)
		for i := len(ids) - 1; i >= 0; i-- {
			dbl = append(dbl, ids[i])
		}
		gotD, errD := integrate.ChangeExtendedSpatialIdsZoom(dbl, h, v)
		mD, eD := diffSets(gotD, wantL)
		if errD != nil || len(mD)+len(eD) > 0 || dupOf(gotD) != "" {
			viol = append(viol, engine.Violation{Property: prop, Sig: prop + ":ChangeExtendedSpatialIdsZoom:repeated-entries-change-the-result" + classifyZoomDiff(vox, h, v),
				Detail: map[string]any{"call": fmt.Sprintf("integrate.ChangeExtendedSpatialIdsZoom(%s, %d, %d)", goList(dbl), h, v), "missing": head(mD, 8), "extra": head(eD, 8), "dup": dupOf(gotD)}})
		}
	}
	// single-zoom API on h == v inputs and targets
	if h == v {
		all := true
		for _, x := range vox {
			if x.H != x.V {
				all = false
				break
			}
		}
		if all {
			sp := make([]string, len(vox))
			for i, x := range vox {
				sp[i] = x.Spatial()
			}
			got2, err := integrate.ChangeSpatialIdsZoom(sp, h)
			call2 := fmt.Sprintf("integrate.ChangeSpatialIdsZoom(%s, %d)", goList(sp), h)
			if err != nil {
				viol = append(viol, engine.Violation{Property: prop, Sig: prop + ":ChangeSpatialIdsZoom:error-on-valid-input", Detail: map[string]any{"call": call2, "err": err.Error()}})
			} else {
				var wantSp []string
				for x := range want {
					wantSp = append(wantSp, x.Spatial())
				}
				m2, e2 := diffSets(got2, wantSp)
				if len(m2)+len(e2) > 0 || dupOf(got2) != "" {
					viol = append(viol, engine.Violation{Property: prop, Sig: prop + ":ChangeSpatialIdsZoom:result-set-differs-from-dyadic-model" + classifyZoomDiff(vox, h, v),
						Detail: map[string]any{"call": call2, "missing": head(m2, 8), "extra": head(e2, 8), "dup": dupOf(got2)}})
				}
			}
		}
	}
	return viol, want
}

// classifyZoomDiff narrows a zoom-change failure to a failure class that can
// be listed as a known finding without hiding other failures.
func classifyZoomDiff(vox []ref.Vox, h, v int64) string {
	for _, x := range vox {
		if x.F < 0 && v < x.V {
			return "[negative-f-zoom-out]"
		}
	}
	return ""
}

// checkMerge compares the library's merge of a list with R1.
func checkMerge(prop string, ids []string, vox []ref.Vox, h, v int64) (viol []engine.Violation, want ref.Set) {
	want = ref.Merge(vox, h, v)
	got, err := integrate.MergeExtendedSpatialIds(ids, h, v)
	call := fmt.Sprintf("integrate.MergeExtendedSpatialIds(%s, %d, %d)", goList(ids), h, v)
	if err != nil {
		return []engine.Violation{{Property: prop, Sig: prop + ":MergeExtendedSpatialIds:error-on-valid-input", Detail: map[string]any{"call": call, "err": err.Error()}}}, want
	}
	if d := dupOf(got); d != "" {
		viol = append(viol, engine.Violation{Property: prop, Sig: prop + ":MergeExtendedSpatialIds:duplicate-in-result", Detail: map[string]any{"call": call, "dup": d}})
	}
	cls := ""
	for _, x := range vox {
		if x.F < 0 && x.V > v && x.H >= h {
			cls = "[negative-f-group]"
		}
	}
	wantL := canonSet(want)
	missing, extra := diffSets(got, wantL)
	if len(missing)+len(extra) > 0 {
		viol = append(viol, engine.Violation{Property: prop, Sig: prop + ":MergeExtendedSpatialIds:result-set-differs-from-dyadic-model" + cls,
			Detail: map[string]any{"call": call, "missing": head(missing, 8), "extra": head(extra, 8), "got": head(sortedCopy(got), 12), "want": head(wantL, 12)}})
	}
	// the same list with every entry repeated (reversed second copy): same set, still duplicate-free
	if len(ids) <= 96 {
		dbl := append([]string(nil), ids...)
		for i := len(ids) - 1; i >= 0; i-- {
			dbl = append(dbl, ids[i])
		}
		gotD, errD := integrate.MergeExtendedSpatialIds(dbl, h, v)
		mD, eD := diffSets(gotD, wantL)
		if errD != nil || len(mD)+len(eD) > 0 || dupOf(gotD) != "" {
			viol = append(viol, engine.Violation{Property: prop, Sig: prop + ":MergeExtendedSpatialIds:repeated-entries-change-the-result" + cls,
				Detail: map[string]any{"call": fmt.Sprintf("integrate.MergeExtendedSpatialIds(%s, %d, %d)", goList(dbl), h, v), "missing": head(mD, 8), "extra": head(eD, 8), "dup": dupOf(gotD)}})
		}
	}
	// region preservation, computed independently of ref.Merge by cell refinement
	var gotVox []ref.Vox
	okParse := true
	for _, g := range got {
		x, ok := ref.ParseExt(g)
		if !ok {
			okParse = false
			break
		}
		gotVox = append(gotVox, x)
	}
	if !okParse || !ref.SameRegion(gotVox, vox) {
		viol = append(viol, engine.Violation{Property: prop, Sig: prop + ":MergeExtendedSpatialIds:region-changed" + cls,
			Detail: map[string]any{"call": call, "got": head(sortedCopy(got), 12)}})
	} else if len(missing)+len(extra) == 0 {
		// idempotence
		got2, err := integrate.MergeExtendedSpatialIds(got, h, v)
		if err != nil {
			viol = append(viol, engine.Violation{Property: prop, Sig: prop + ":MergeExtendedSpatialIds:error-on-second-application", Detail: map[string]any{"call": call}})
		} else if m2, e2 := diffSets(got2, got); len(m2)+len(e2) > 0 {
			viol = append(viol, engine.Violation{Property: prop, Sig: prop + ":MergeExtendedSpatialIds:not-idempotent" + cls,
				Detail: map[string]any{"call": call, "first": head(sortedCopy(got), 12), "second": head(sortedCopy(got2), 12)}})
		}
	}
	if h == v {
		all := true
		for _, x := range vox {
			if x.H != x.V {
				all = false
				break
			}
		}
		if all {
			sp := make([]string, len(vox))
			for i, x := range vox {
				sp[i] = x.Spatial()
			}
			got2, err := integrate.MergeSpatialIds(sp, h)
			call2 := fmt.Sprintf("integrate.MergeSpatialIds(%s, %d)", goList(sp), h)
			if err != nil {
				viol = append(viol, engine.Violation{Property: prop, Sig: prop + ":MergeSpatialIds:error-on-valid-input", Detail: map[string]any{"call": call2, "err": err.Error()}})
			} else {
				var wantSp []string
				for x := range want {
					wantSp = append(wantSp, x.Spatial())
				}
				m2, e2 := diffSets(got2, wantSp)
				if len(m2)+len(e2) > 0 || dupOf(got2) != "" {
					viol = append(viol, engine.Violation{Property: prop, Sig: prop + ":MergeSpatialIds:result-set-differs-from-dyadic-model" + cls,
						Detail: map[string]any{"call": call2, "missing": head(m2, 8), "extra": head(e2, 8), "dup": dupOf(got2)}})
				}
			}
		}
	}
	return viol, want
}

// voxMachine builds the machine for one world; verify selects which
// operation kind is checked against the model ("Z" or "M"); the other kind is
// taken through the model only and acts as a driver that reaches partially
// merged / mixed-zoom states.
func voxMachine(prop string, w world, verify string, depth, maxStates int, replay bool) *engine.Machine {
	ops := w.ops()
	inits := [][]string{{w.root.Ext()}}
	if w.twin != nil {
		inits = append(inits, canonSet(ref.NewSet(w.root, *w.twin)))
	}
	// a sparse mixed-zoom start: one child of the root and one grandchild under another child
	// (judged first, and judged again at the end after the rest of the search has run)
	if w.root.H+2 <= 35 && w.root.V+2 <= 35 {
		ch := w.root.ChangeZoom(w.root.H+1, w.root.V+1)
		g := ch[len(ch)-1].ChangeZoom(w.root.H+2, w.root.V+2)
		inits = append(inits, canonSet(ref.NewSet(ch[0], g[len(g)-1])))
	}
	m := &engine.Machine{Property: prop, Name: verify + "@" + w.name, Inits: inits, MaxDepth: depth, MaxStates: maxStates, ReplayLastLevel: replay}
	m.NumOps = func(s []string) int { return len(ops) }
	m.Verified = func(s []string, i int) bool { return ops[i].kind == verify }
	m.LeafSweepMaxSize = 0
	m.Rejudge = 400
	m.OpName = func(s []string, i int) string { return ops[i].String() }
	m.Step = func(s []string, i int) engine.StepResult {
		op := ops[i]
		vox := parseState(s)
		switch op.kind {
		case "drop":
			if len(s) < 2 {
				return engine.StepResult{Skip: "drop-on-singleton"}
			}
			k := []int{0, len(s) / 2, len(s) - 1}[op.idx]
			if op.idx == 1 && (k == 0 || k == len(s)-1) {
				return engine.StepResult{Skip: "drop-mid-same-as-end"}
			}
			n := append(append([]string(nil), s[:k]...), s[k+1:]...)
			return engine.StepResult{Next: n}
		case "add":
			a := w.adds[op.idx].Ext()
			for _, x := range s {
				if x == a {
					return engine.StepResult{Skip: "add-already-present"}
				}
			}
			if len(s)+1 > maxStateSize {
				return engine.StepResult{Skip: "state-size-cap"}
			}
			n := sortedVoxStrings(append(append([]ref.Vox(nil), vox...), w.adds[op.idx]))
			return engine.StepResult{Next: n}
		case "Z":
			var total int64
			for _, x := range vox {
				total += x.ChangeZoomCount(op.h, op.v)
			}
			if total > maxZoomOut {
				return engine.StepResult{Skip: "zoom-output-over-budget"}
			}
			if verify != "Z" {
				want := ref.ChangeZoomSet(vox, op.h, op.v)
				if len(want) > maxStateSize {
					return engine.StepResult{Skip: "state-size-cap"}
				}
				return engine.StepResult{Next: canonSet(want)}
			}
			viol, want := checkZoom(prop, s, vox, op.h, op.v)
			res := engine.StepResult{Validated: true, Violations: viol, Outcome: fmt.Sprintf("Z%d:%d->%d", len(s), op.h*100+op.v, len(want))}
			wl := canonSet(want)
			res.Nontrivial = strings.Join(wl, ",") != strings.Join(s, ",")
			if len(want) <= maxStateSize {
				res.Next = wl
			}
			return res
		case "M":
			if mergeUnitCells(vox, op.h, op.v) > maxUnitCells {
				return engine.StepResult{Skip: "merge-unit-cells-over-budget"}
			}
			if verify != "M" {
				return engine.StepResult{Next: canonSet(ref.Merge(vox, op.h, op.v))}
			}
			viol, want := checkMerge(prop, s, vox, op.h, op.v)
			wl := canonSet(want)
			res := engine.StepResult{Validated: true, Violations: viol, Next: wl, Outcome: fmt.Sprintf("M%d:%d->%d", len(s), op.h*100+op.v, len(want))}
			res.Nontrivial = strings.Join(wl, ",") != strings.Join(s, ",")
			return res
		}
		return engine.StepResult{Skip: "unknown-op"}
	}
	return m
}

func sortedVoxStrings(v []ref.Vox) []string {
	return canonSet(ref.NewSet(v...))
}

// runVoxWorlds runs the machine over all worlds of the shard.
func runVoxWorlds(prop, verify, tier string) func(shard, nshards int, deadline time.Time, st *engine.Stats) {
	return func(shard, nshards int, deadline time.Time, st *engine.Stats) {
		depth, maxStates := 3, 60000
		if tier == "thorough" {
			depth, maxStates = 4, 400000
		}
		for i, w := range worlds(tier) {
			if i%nshards != shard {
				continue
			}
			m := voxMachine(prop, w, verify, depth, maxStates, tier == "thorough")
			engine.RunBFS(m, deadline, st)
		}
	}
}

func replayVoxWorld(prop, verify, tier string) func(v engine.Violation) []engine.Violation {
	return func(v engine.Violation) []engine.Violation {
		init := toStrs(v.Detail["trace_init"])
		var ops []int
		if a, ok := v.Detail["trace_ops"].([]any); ok {
			for _, x := range a {
				ops = append(ops, int(toI(x)))
			}
		} else if a, ok := v.Detail["trace_ops"].([]int); ok {
			ops = a
		}
		for _, w := range worlds(tier) {
			m := voxMachine(prop, w, verify, 99, 0, false)
			for _, in := range m.Inits {
				if strings.Join(in, ",") == strings.Join(init, ",") {
					return engine.ReplayTrace(m, init, ops)
				}
			}
		}
		return nil
	}
}

func toStrs(v any) []string {
	switch t := v.(type) {
	case []string:
		return t
	case []any:
		r := make([]string, len(t))
		for i, x := range t {
			r[i], _ = x.(string)
		}
		return r
	}
	return nil
}

// prefixLists: lists whose entries are textual prefixes / decimal extensions of one another
// ("20/5/7/..." vs "20/5/70/..." vs "20/57/7/..."): string shortcuts (HasPrefix, map keys built
// without a delimiter) confuse them. Returns lists of 2-3 valid voxels in several orders.
func prefixLists(h, v int64) [][]ref.Vox {
	if h < 7 {
		return nil
	}
	a := ref.Vox{H: h, X: 5, Y: 7, V: v, F: 1}
	cands := []ref.Vox{
		{H: h, X: 5, Y: 70, V: v, F: 1},  // y extended by a digit
		{H: h, X: 57, Y: 7, V: v, F: 1},  // x extended
		{H: h, X: 5, Y: 7, V: v, F: 12},  // f extended
		{H: h, X: 5, Y: 71, V: v, F: -1}, // y extended, other sign of f
	}
	if v*10+1 <= 35 {
		cands = append(cands, ref.Vox{H: h, X: 5, Y: 7, V: v*10 + 1, F: 1}) // vertical zoom extended
	}
	var out [][]ref.Vox
	for _, b := range cands {
		if !b.Valid() || !a.Valid() {
			continue
		}
		far := ref.Vox{H: h, X: 99, Y: 3, V: v, F: 0}
		out = append(out, []ref.Vox{a, b}, []ref.Vox{b, a}, []ref.Vox{a, far, b}, []ref.Vox{a, b, b})
	}
	return out
}
