package props

import (
	"fmt"
	"sort"
	"strings"

	"github.com/trajectoryjp/spatial_id_go/v4/common/object"
	"github.com/trajectoryjp/spatial_id_go/v4/detector"
	"github.com/trajectoryjp/spatial_id_go/v4/integrate"
	"github.com/trajectoryjp/spatial_id_go/v4/operated"
	"github.com/trajectoryjp/spatial_id_go/v4/shape"
	"github.com/trajectoryjp/spatial_id_go/v4/transform"

	"verif/mc/engine"
	"verif/mc/ref"
)

// setOp is one set-valued operation over a list of extended IDs.
type setOp struct {
	name  string
	dedup bool // result documented as de-duplicated
	// run returns the result in canonical (sorted) form plus the raw list for the duplicate check
	run func(ids []string) (raw []string, err error)
}

func spatialOf(ids []string) []string {
	r := make([]string, len(ids))
	for i, s := range ids {
		r[i] = ref.MustExt(s).Spatial()
	}
	return r
}

func tilesOf(ids []string) []*object.TileXYZ {
	var r []*object.TileXYZ
	for _, s := range ids {
		v := ref.MustExt(s)
		// reinterpret the voxel as a tile key with non-negative z
		z := v.F
		if z < 0 {
			z = -z
		}
		n := int64(1) << uint(v.V)
		if z >= n {
			z = n - 1
		}
		t, _ := object.NewTileXYZ(v.H, v.X, v.Y, v.V, z)
		r = append(r, t)
	}
	return r
}

func pairsToStrings(gs []*object.FromExtendedSpatialIDToQuadkeyAndVerticalID) []string {
	var r []string
	for _, g := range gs {
		for _, p := range g.InnerIDList() {
			r = append(r, fmt.Sprintf("%d:%d:%d:%d", g.QuadkeyZoom(), p[0], g.VerticalZoom(), p[1]))
		}
	}
	return r
}

func c16Ops(w world) []setOp {
	h, v := w.root.H, w.root.V
	up := func(z int64) int64 {
		if z+1 > 35 {
			return 35
		}
		return z + 1
	}
	dn := func(z int64) int64 {
		if z < 1 {
			return 0
		}
		return z - 1
	}
	qh := h
	if qh < 1 {
		qh = 1
	}
	if qh > 31 {
		qh = 31
	}
	other := []string{w.root.ChangeZoom(up(h), up(v))[0].Ext(), w.root.Shift(1, 0, 3).Ext()}
	ops := []setOp{
		{"integrate.ChangeExtendedSpatialIdsZoom(up)", true, func(ids []string) ([]string, error) {
			return integrate.ChangeExtendedSpatialIdsZoom(ids, up(h), up(v))
		}},
		{"integrate.ChangeExtendedSpatialIdsZoom(down)", true, func(ids []string) ([]string, error) {
			return integrate.ChangeExtendedSpatialIdsZoom(ids, dn(h), dn(v))
		}},
		{"integrate.MergeExtendedSpatialIds(root)", true, func(ids []string) ([]string, error) { return integrate.MergeExtendedSpatialIds(ids, h, v) }},
		{"integrate.MergeExtendedSpatialIds(child)", true, func(ids []string) ([]string, error) {
			return integrate.MergeExtendedSpatialIds(ids, up(h), up(v))
		}},
		{"operated.GetNspatialIdsAroundVoxcels(1,1)", true, func(ids []string) ([]string, error) {
			return operated.GetNspatialIdsAroundVoxcels(ids, 1, 1)
		}},
		{"detector.CheckExtendedSpatialIdsArrayOverlap(list,other)", false, func(ids []string) ([]string, error) {
			b, err := detector.CheckExtendedSpatialIdsArrayOverlap(ids, other)
			b2, err2 := detector.CheckExtendedSpatialIdsArrayOverlap(other, ids)
			if err == nil {
				err = err2
			}
			return []string{fmt.Sprint(b, b2)}, err
		}},
		{"transform.ConvertExtendedSpatialIDsToQuadkeysAndVerticalIDs", true, func(ids []string) ([]string, error) {
			gs, err := transform.ConvertExtendedSpatialIDsToQuadkeysAndVerticalIDs(ids, qh, up(v), 0, 0)
			return pairsToStrings(gs), err
		}},
		{"transform.ConvertExtendedSpatialIDsToQuadkeysAndVerticalIDs(height-range)", true, func(ids []string) ([]string, error) {
			gs, err := transform.ConvertExtendedSpatialIDsToQuadkeysAndVerticalIDs(ids, qh, 6, 1024, -1024)
			return pairsToStrings(gs), err
		}},
		{"transform.ConvertExtendedSpatialIDsToQuadkeysAndAltitudekeys", true, func(ids []string) ([]string, error) {
			gs, err := transform.ConvertExtendedSpatialIDsToQuadkeysAndAltitudekeys(ids, qh, up(v), v, int64(1)<<uint(v))
			var r []string
			for _, g := range gs {
				for _, p := range g.InnerIDList() {
					r = append(r, fmt.Sprintf("%d:%d", p[0], p[1]))
				}
			}
			return r, err
		}},
		{"transform.ConvertQuadkeysAndVerticalIDsToExtendedSpatialIDs", true, func(ids []string) ([]string, error) {
			var q []*object.QuadkeyAndVerticalID
			for _, s := range ids {
				x := ref.MustExt(s)
				if x.H < 1 || x.H > 31 {
					return nil, nil
				}
				q = append(q, object.NewQuadkeyAndVerticalID(x.H, ref.Quadkey(x.H, x.X, x.Y), x.V, x.F, 0, 0))
			}
			return transform.ConvertQuadkeysAndVerticalIDsToExtendedSpatialIDs(q, qh, up(v))
		}},
		{"transform.ConvertTileXYZsToExtendedSpatialIDs", true, func(ids []string) ([]string, error) {
			r, err := transform.ConvertTileXYZsToExtendedSpatialIDs(tilesOf(ids), v, 0, up(v))
			var s []string
			for _, x := range r {
				s = append(s, x.ID())
			}
			return s, err
		}},
		{"transform.ConvertTileXYZsToSpatialIDs", false, func(ids []string) ([]string, error) {
			if h > v+2 || v > h+2 {
				return nil, nil
			}
			return transform.ConvertTileXYZsToSpatialIDs(tilesOf(ids), v, 0, up(v))
		}},
	}
	if h == v {
		ops = append(ops,
			setOp{"integrate.ChangeSpatialIdsZoom(up)", true, func(ids []string) ([]string, error) {
				for _, s := range ids {
					if x := ref.MustExt(s); x.H != x.V {
						return nil, nil
					}
				}
				in, chk := guardedList(spatialOf(ids))
				defer noteGuard(chk)
				return integrate.ChangeSpatialIdsZoom(in, up(h))
			}},
			setOp{"integrate.MergeSpatialIds(root)", true, func(ids []string) ([]string, error) {
				for _, s := range ids {
					if x := ref.MustExt(s); x.H != x.V {
						return nil, nil
					}
				}
				in, chk := guardedList(spatialOf(ids))
				defer noteGuard(chk)
				return integrate.MergeSpatialIds(in, h)
			}},
			setOp{"detector.CheckSpatialIdsArrayOverlap(list,other)", false, func(ids []string) ([]string, error) {
				half := int64(1) << uint(h)
				for _, s := range append(append([]string{}, ids...), other...) {
					x := ref.MustExt(s)
					if x.H != x.V || x.H < 1 || x.F < -(int64(1)<<uint(x.H-1)) || x.F >= int64(1)<<uint(x.H-1) {
						return nil, nil
					}
				}
				_ = half
				in, chk := guardedList(spatialOf(ids))
				oth, chk2 := guardedList(spatialOf(other))
				defer noteGuard(chk)
				defer noteGuard(chk2)
				b, err := detector.CheckSpatialIdsArrayOverlap(in, oth)
				b2, err2 := detector.CheckSpatialIdsArrayOverlap(oth, in)
				if err == nil {
					err = err2
				}
				return []string{fmt.Sprint(b, b2)}, err
			}})
	}
	return ops
}

// c16Lists: base lists (distinct elements) and their variants (permutations, doubled entries).
func c16Lists(w world) (bases [][]string) {
	h, v := w.root.H, w.root.V
	if h+1 > 35 || v+1 > 35 {
		return [][]string{{w.root.Ext()}}
	}
	ch := w.root.ChangeZoom(h+1, v+1)
	bases = [][]string{
		{w.root.Ext()},
		{ch[0].Ext(), ch[len(ch)-1].Ext()},
		{ch[0].Ext(), ch[1].Ext(), ch[len(ch)-1].Ext()},
		ref.Exts(ch),                // the complete sibling group
		{w.root.Ext(), ch[2].Ext()}, // nested
		{w.root.Ext(), ref.Vox{H: h + 1, X: w.root.X, Y: w.root.Y, V: v, F: w.root.F}.Ext(), ref.Vox{H: h, X: w.root.X, Y: w.root.Y, V: v + 1, F: w.root.F}.Ext()}, // same numbers at other zooms
	}
	// a coarser voxel disjoint from other[0] followed by a finer sibling of other[0]: per-pair state that is
	// carried over from the coarser entry (a running minimum of the target zoom) makes the answer depend on the order
	if c := w.root.Shift(1, 0, 0); c != w.root && len(ch) > 1 {
		bases = append(bases, []string{c.Ext(), ch[1].Ext()})
	}
	// a vertical stack with gaps, listed bottom, top, middle (a later entry falls between two earlier ones)
	if a, b := w.root.Shift(0, 0, 4), w.root.Shift(0, 0, 2); a.Valid() && b.Valid() {
		bases = append(bases, []string{w.root.Ext(), a.Ext(), b.Ext()})
	}
	if w.twin != nil {
		bases = append(bases, []string{w.root.Ext(), w.twin.Ext()}, []string{ch[0].Ext(), w.twin.ChangeZoom(h, v+1)[0].Ext(), w.twin.Ext()})
	}
	return
}

func variantsOf(base []string) [][]string {
	out := [][]string{append([]string(nil), base...)}
	n := len(base)
	if n <= 3 {
		var perm func(a []string, k int)
		perm = func(a []string, k int) {
			if k == len(a) {
				out = append(out, append([]string(nil), a...))
				return
			}
			for i := k; i < len(a); i++ {
				a[k], a[i] = a[i], a[k]
				perm(a, k+1)
				a[k], a[i] = a[i], a[k]
			}
		}
		perm(append([]string(nil), base...), 0)
	} else {
		rev := make([]string, n)
		for i := range base {
			rev[n-1-i] = base[i]
		}
		out = append(out, rev, append(append([]string(nil), base[n/2:]...), base[:n/2]...))
	}
	for i := range base { // entry i doubled (adjacent and at the end)
		d := append([]string(nil), base[:i+1]...)
		d = append(d, base[i:]...)
		out = append(out, d, append(append([]string(nil), base...), base[i]))
	}
	return out
}

func canonStrings(s []string) string {
	m := map[string]bool{}
	for _, x := range s {
		m[x] = true
	}
	r := make([]string, 0, len(m))
	for x := range m {
		r = append(r, x)
	}
	sort.Strings(r)
	return strings.Join(r, ",")
}

func init() {
	engine.Register(&engine.Check{
		ID:        "C16",
		Title:     "Results depend only on the input set: deterministic, order-blind, no duplicates",
		Technique: "stateless exploration (E1) with the Go runtime's map-iteration start owned as an environment choice: for every operation x argument list x permutation/duplication, all executions with at most 1 (quick) / 2 (thorough) deviations from the default iteration start, each compared with the default-order result of the base list",
		Assumptions: []string{
			"map-order exploration enumerates start bucket x offset of every map iteration under fixed hash seeds (what the runtime does), not all permutations the language allows",
			"argument lists beyond the listed shapes (<= 3 distinct elements, the complete sibling group, nested and twin pairs, a vertical stack with gaps) are not covered",
		},
		Phases: func(tier string) []engine.Phase {
			ws := worlds(tier)
			var use []world
			for _, w := range ws {
				if w.root.F == -1 || w.root.F == 0 {
					use = append(use, w)
				}
			}
			dev := 1
			seeds := 1
			if tier == "thorough" {
				dev = 2
				seeds = 2
			}
			return []engine.Phase{
				{Name: "list-operations", ShardDepth: 3, Bounds: engine.Bounds{EnvDev: dev, InputDev: -1},
					Rule: "full product world x operation (15 set-valued list operations) x base list x variant (all permutations, each entry doubled) [x hash seed], and for each all map-iteration executions within the deviation bound: result set = result set of the base list under default order; no duplicates where documented; the base call repeated after a call that fails part-way (the same list plus a malformed ID) returns the same set; argument slice and the spare capacity behind it (sentinels) byte-identical afterwards; non-trivial = distinct (operation, variant) executions that met at least one map choice point",
					Body: func(c *engine.Ctx) {
						w := use[c.In("world", len(use))]
						ops := c16Ops(w)
						op := ops[c.In("op", len(ops))]
						bases := c16Lists(w)
						base := bases[c.In("base", len(bases))]
						vars := variantsOf(base)
						arg := vars[c.In("variant", len(vars))]
						if seeds > 1 {
							engine.SetHashSeed(uint32(0x5eed0001 + 7919*c.In("seed", seeds)))
						} else {
							engine.SetHashSeed(0x5eed0001)
						}
						refRaw, refErr := op.run(append([]string(nil), base...))
						if refRaw == nil && refErr == nil {
							c.Skip("operation-not-applicable-to-list")
						}
						want := canonStrings(refRaw)
						in, inChk := guardedList(arg)
						argMutation = ""
						c.EnvMaps(true)
						got, err := op.run(in)
						c.EnvMaps(false)
						call := fmt.Sprintf("%s(%s)", op.name, goList(arg))
						c.Observe("%s -> %d %v", call, len(got), err)
						if c.MapPointsSeen() > 0 {
							c.Nontrivial(call)
						}
						c.CountN("map_points_met", int64(c.MapPointsSeen()))
						d := map[string]any{"call": call, "base": base}
						if (err != nil) != (refErr != nil) {
							c.Violation("C16:"+op.name+":error-depends-on-order-or-run", d)
							return
						}
						gs := canonStrings(got)
						c.Outcome(op.name + fmt.Sprint(base) + gs)
						if gs != want {
							d["got"], d["want"] = trunc2(gs, 400), trunc2(want, 400)
							c.Violation("C16:"+op.name+":result-set-depends-on-order-duplication-or-map-iteration", d)
						}
						if op.dedup {
							if dp := dupOf(got); dp != "" {
								d["dup"] = dp
								c.Violation("C16:"+op.name+":duplicate-in-result", d)
							}
						}
						// a call that fails part-way (the same list, then a malformed ID) leaves nothing behind: the same
						// valid call afterwards returns the same set (only where the operation takes ID strings as they are)
						if eqStrs(arg, base) {
							failed := false
							func() {
								defer func() { recover() }() // wrappers that parse the IDs themselves panic on the malformed one: not applicable
								_, e := op.run(append(append([]string(nil), base...), "1/2/x/4/5"))
								failed = e != nil
							}()
							if failed {
								c.Count("failing_call_then_valid_call")
								again, e2 := op.run(append([]string(nil), base...))
								if (e2 != nil) != (refErr != nil) || canonStrings(again) != want {
									c.Violation("C16:"+op.name+":result-changes-after-a-failed-call", map[string]any{"call": call, "after": trunc2(canonStrings(again), 300), "want": trunc2(want, 300)})
								}
							}
						}
						if m := inChk(); m != "" {
							c.Violation("C16:"+op.name+":input-slice-modified["+m+"]", d)
						} else if argMutation != "" {
							c.Violation("C16:"+op.name+":input-slice-modified["+argMutation+"]", d)
						}
					}},
				{Name: "line-and-corridor", ShardDepth: 2, Bounds: engine.Bounds{EnvDev: dev, InputDev: -1},
					Rule: "5 segments (zoom pairs 4/4, 20/20, 10/22, 6/3, 4/3) through GetExtendedSpatialIdsOnLine and the corridor query (2 radii x both skip flags): for each all map-iteration executions within the deviation bound; result set equals the default-order result, duplicate-free; non-trivial = distinct executions that met a map choice point",
					Body: func(c *engine.Ctx) {
						type seg struct {
							a, b [3]float64
							h, v int64
							r    float64
						}
						segs := []seg{
							{[3]float64{10, 0, 0}, [3]float64{10, 66, 0}, 4, 4, 1200000},
							{[3]float64{139.70, 35.60, 10}, [3]float64{139.7005, 35.6004, 40}, 20, 20, 30},
							{[3]float64{-0.2, 51.5, -5}, [3]float64{0.2, 51.6, 5}, 10, 22, 20000},
							{[3]float64{100, -40, 100}, [3]float64{101, -60, 100}, 6, 3, 300000},
							{[3]float64{11.25, 61.6063963713, 2.097152e6}, [3]float64{-45, 21.9430455334, 6.291456e6}, 4, 3, 357313.3603129548},
						}
						sg := segs[c.In("segment", len(segs))]
						mode := c.In("mode", 5)
						engine.SetHashSeed(0x5eed0001)
						s, _ := object.NewPoint(sg.a[0], sg.a[1], sg.a[2])
						e, _ := object.NewPoint(sg.b[0], sg.b[1], sg.b[2])
						run := func() ([]string, error) {
							switch mode {
							case 0:
								return shape.GetExtendedSpatialIdsOnLine(s, e, sg.h, sg.v)
							case 1:
								return transform.GetExtendedSpatialIdsWithinRadiusOfLine(s, e, sg.r, sg.h, sg.v, true)
							case 2:
								return transform.GetExtendedSpatialIdsWithinRadiusOfLine(s, e, sg.r, sg.h, sg.v, false)
							case 3:
								return transform.GetExtendedSpatialIdsWithinRadiusOfLine(s, e, sg.r/3, sg.h, sg.v, true)
							}
							return transform.GetExtendedSpatialIdsWithinRadiusOfLine(s, e, 0, sg.h, sg.v, false)
						}
						refRaw, refErr := run()
						c.EnvMaps(true)
						got, err := run()
						c.EnvMaps(false)
						name := []string{"shape.GetExtendedSpatialIdsOnLine", "transform.GetExtendedSpatialIdsWithinRadiusOfLine(skip)", "transform.GetExtendedSpatialIdsWithinRadiusOfLine(measure)", "transform.GetExtendedSpatialIdsWithinRadiusOfLine(skip,r/3)", "transform.GetExtendedSpatialIdsWithinRadiusOfLine(r=0)"}[mode]
						call := fmt.Sprintf("%s(%v,%v,%d,%d,r=%v)", name, sg.a, sg.b, sg.h, sg.v, sg.r)
						c.Observe("%s -> %d %v", call, len(got), err)
						if c.MapPointsSeen() > 0 {
							c.Nontrivial(call)
						}
						c.CountN("map_points_met", int64(c.MapPointsSeen()))
						d := map[string]any{"call": call, "default_order_n": len(refRaw), "got_n": len(got)}
						if (err != nil) != (refErr != nil) {
							c.Violation("C16:"+name+":error-depends-on-run", d)
							return
						}
						gs := canonStrings(got)
						c.Outcome(call + fmt.Sprint(len(got)))
						if gs != canonStrings(refRaw) {
							c.Violation("C16:"+name+":result-set-depends-on-map-iteration-order", d)
						}
						if dp := dupOf(got); dp != "" {
							c.Violation("C16:"+name+":duplicate-in-result", d)
						}
					}},
			}
		},
	})
}

func trunc2(s string, n int) string {
	if len(s) > n {
		return s[:n] + "…"
	}
	return s
}
