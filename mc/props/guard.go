package props

import (
	"fmt"
	"reflect"
	"strings"
)

const guardSentinel = "<<memory behind the argument>>"

// guardedList returns a copy of ids as a window into a larger array (the caller "still uses" the
// rest: its spare capacity holds sentinels) and a function that reports what a callee did to it:
// "" if the window's elements and the memory behind it are untouched.
func guardedList(ids []string) ([]string, func() string) {
	full := make([]string, len(ids)+len(ids)+3)
	copy(full, ids)
	for i := len(ids); i < len(full); i++ {
		full[i] = guardSentinel
	}
	want := strings.Join(ids, "|")
	n := len(ids)
	return full[:n], func() string {
		if strings.Join(full[:n], "|") != want {
			return "argument-slice-elements-overwritten"
		}
		for i := n; i < len(full); i++ {
			if full[i] != guardSentinel {
				return "memory-behind-the-argument-slice-written"
			}
		}
		return ""
	}
}

// argMutation collects what wrappers that build their own argument lists (the z/f/x/y forms)
// observed; the phase body reads and resets it after the call.
var argMutation string

func noteGuard(chk func() string) {
	if m := chk(); m != "" && argMutation == "" {
		argMutation = m
	}
}

// snapObjects prints the objects a list of pointers points to (all fields, unexported too), so
// that a harness can tell whether a callee modified its caller's request objects.
func snapObjects(list any) string {
	v := reflect.ValueOf(list)
	var b strings.Builder
	for i := 0; i < v.Len(); i++ {
		e := v.Index(i)
		for e.Kind() == reflect.Pointer && !e.IsNil() {
			e = e.Elem()
		}
		fmt.Fprintf(&b, "%+v;", e)
	}
	return b.String()
}
