package props

import (
	"fmt"
	"math"

	"github.com/trajectoryjp/spatial_id_go/v4/common/enum"
	"github.com/trajectoryjp/spatial_id_go/v4/common/object"
	"github.com/trajectoryjp/spatial_id_go/v4/shape"

	"verif/mc/alpha"
	"verif/mc/engine"
	"verif/mc/ref"
)

func ulpDiff(a, b float64) float64 {
	if a == b {
		return 0
	}
	return math.Abs(a-b) / (math.Max(math.Abs(a), math.Abs(b)) * 2.220446049250313e-16)
}

// latClose: stored latitudes are cut toward zero at 1e-10 degrees.
func latClose(stored, exact float64) bool {
	cut := math.Abs(exact) - math.Abs(stored)
	return cut > -1e-12 && cut < 1e-10+1e-12
}

func init() {
	engine.Register(&engine.Check{
		ID:        "C02",
		Title:     "An ID is mapped back to the geometry of its voxel, and the grid tiles space",
		Technique: "exhaustive choice-tree enumeration (E1) of IDs over all zoom pairs x index classes (first/last row and column, both signs of f): corner order and values against exact/banded references, centre midpoint, relational round trip through the point lookup, bit-for-bit shared faces between adjacent voxels",
		Assumptions: []string{
			"index values outside the alphabet classes are not covered",
			"latitude corners are compared with a float64 inverse-Mercator reference within the documented 1e-10 degree truncation (+1e-12)",
			"longitude and altitude corners are exact dyadic values and are compared bit for bit",
		},
		Phases: func(tier string) []engine.Phase {
			zs := zooms(tier)
			return []engine.Phase{
				{Name: "geometry", Serial: true, Bounds: engine.Bounds{InputDev: -1},
					Rule: "full product h x v x (x,y) in HIdx(h)^2 x f in VIdx(v): 8 corners in NW,NE,SE,SW bottom-then-top order, exact lon/alt, banded lat, centre = midpoint, centre -> point lookup at the same zooms returns the ID, faces shared bit for bit with the east, south and upper neighbour; both notations when h = v; unknown option is an error; non-trivial = distinct IDs on a grid edge (first/last column or row, lowest/highest f)",
					Body: func(c *engine.Ctx) {
						h := zs[c.In("h", len(zs))]
						v := zs[c.In("v", len(zs))]
						hx := alpha.HIdx(h)
						x := hx[c.In("x", len(hx))]
						y := hx[c.In("y", len(hx))]
						fs := alpha.VIdx(v)
						f := fs[c.In("f", len(fs))]
						id := ref.Vox{H: h, X: x, Y: y, V: v, F: f}
						n := int64(1) << uint(h)
						m := int64(1) << uint(v)
						vt, err := shape.GetPointOnExtendedSpatialId(id.Ext(), enum.Vertex)
						ct, err2 := shape.GetPointOnExtendedSpatialId(id.Ext(), enum.Center)
						d := map[string]any{"id": id.Ext()}
						if err != nil || err2 != nil || len(vt) != 8 || len(ct) != 1 {
							c.Violation("C02:GetPointOnExtendedSpatialId:error-or-wrong-count", d)
							return
						}
						c.Observe("%s -> %v %v", id.Ext(), *vt[0], *ct[0])
						if x == 0 || y == 0 || x == n-1 || y == n-1 || f == -m || f == m-1 {
							c.Nontrivial(id.Ext())
						}
						c.Outcome(fmt.Sprint(*ct[0]))
						W, E := ref.LonBoundary(x, h), ref.LonBoundary(x+1, h)
						N, S := ref.RowBoundaryLat(y, h), ref.RowBoundaryLat(y+1, h)
						B, T := ref.AltBoundary(f, v), ref.AltBoundary(f+1, v)
						wantLon := []float64{W, E, E, W, W, E, E, W}
						wantLat := []float64{N, N, S, S, N, N, S, S}
						wantAlt := []float64{B, B, B, B, T, T, T, T}
						for i, p := range vt {
							if p.Lon() != wantLon[i] || p.Alt() != wantAlt[i] {
								d["corner"], d["got"], d["want_lon"], d["want_alt"] = i, fmt.Sprint(*p), wantLon[i], wantAlt[i]
								c.Violation("C02:vertex:longitude-or-altitude-corner-wrong-or-out-of-order", d)
								break
							}
							if !latClose(p.Lat(), wantLat[i]) {
								d["corner"], d["got"], d["want_lat"] = i, fmt.Sprint(*p), wantLat[i]
								c.Violation("C02:vertex:latitude-corner-wrong-or-out-of-order", d)
								break
							}
						}
						cp := ct[0]
						if cp.Lon() != (W+E)/2 || cp.Alt() != (B+T)/2 || !latClose(cp.Lat(), (vt[0].Lat()+vt[2].Lat())/2) {
							d["centre"] = fmt.Sprint(*cp)
							c.Violation("C02:centre:not-the-midpoint-of-the-corners", d)
						}
						back, err := shape.GetExtendedSpatialIdsOnPoints([]*object.Point{cp}, h, v)
						if err != nil || len(back) != 1 || back[0] != id.Ext() {
							d["centre"], d["back"] = fmt.Sprint(*cp), back
							c.Violation("C02:roundtrip:centre-does-not-map-back-to-the-id", d)
						}
						// shared faces
						if x+1 < n {
							e, _ := shape.GetPointOnExtendedSpatialId(ref.Vox{H: h, X: x + 1, Y: y, V: v, F: f}.Ext(), enum.Vertex)
							if len(e) != 8 || math.Float64bits(e[0].Lon()) != math.Float64bits(vt[1].Lon()) {
								c.Violation("C02:tiling:east-face-differs-from-neighbours-west-face", d)
							}
						} else if vt[1].Lon() != 180 || vt[0].Lon() != ref.LonBoundary(n-1, h) {
							c.Violation("C02:tiling:last-column-does-not-end-at-180", d)
						}
						if x == 0 && vt[0].Lon() != -180 {
							c.Violation("C02:tiling:first-column-does-not-start-at--180", d)
						}
						if y+1 < n {
							s, _ := shape.GetPointOnExtendedSpatialId(ref.Vox{H: h, X: x, Y: y + 1, V: v, F: f}.Ext(), enum.Vertex)
							if len(s) != 8 || math.Float64bits(s[0].Lat()) != math.Float64bits(vt[2].Lat()) {
								c.Violation("C02:tiling:south-face-differs-from-neighbours-north-face", d)
							}
						}
						u, _ := shape.GetPointOnExtendedSpatialId(ref.Vox{H: h, X: x, Y: y, V: v, F: f + 1}.Ext(), enum.Vertex)
						if len(u) != 8 || math.Float64bits(u[0].Alt()) != math.Float64bits(vt[4].Alt()) {
							c.Violation("C02:tiling:top-face-differs-from-upper-neighbours-bottom-face", d)
						}
						if h == v {
							sv, e1 := shape.GetPointOnSpatialId(id.Spatial(), enum.Vertex)
							sc, e2 := shape.GetPointOnSpatialId(id.Spatial(), enum.Center)
							same := e1 == nil && e2 == nil && len(sv) == 8 && len(sc) == 1 && *sc[0] == *cp
							if same {
								for i := range sv {
									if *sv[i] != *vt[i] {
										same = false
									}
								}
							}
							if !same {
								c.Violation("C02:GetPointOnSpatialId:differs-from-extended-form", d)
							}
						}
						if _, e := shape.GetPointOnExtendedSpatialId(id.Ext(), enum.PointOption(2)); e == nil {
							c.Violation("C02:GetPointOnExtendedSpatialId:unknown-option-accepted", d)
						}
					}},
			}
		},
	})
}
