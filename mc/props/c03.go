package props

import (
	"math"
	"fmt"
	"strconv"
	"strings"

	"github.com/trajectoryjp/spatial_id_go/v4/integrate"

	"verif/mc/alpha"
	"verif/mc/engine"
	"verif/mc/ref"
)

func init() {
	engine.Register(&engine.Check{
		ID:        "C03",
		Title:     "Changing zoom yields exactly the voxels that refine or contain the input",
		Technique: "explicit-state BFS (E2) over the VoxelSets operation machine with a lock-step dyadic-box reference model; exhaustive choice-tree enumeration (E1) of the per-axis helpers",
		Assumptions: []string{
			"zoom spread per call bounded (<= 4 levels per axis in the machine, <= 3 refining levels for the helpers) because the result size is exponential in it",
			"index values outside the alphabet classes are not covered",
			"reference model: ref.ChangeZoom (arithmetic shifts on integers)",
		},
		Phases: func(tier string) []engine.Phase {
			zs := alpha.Zall // cheap: always all zooms
			return []engine.Phase{
				respellZoomPhase("C03", tier),
				longIDListPhase("C03", tier),
				{Name: "voxelsets-machine-zoom", Custom: runVoxWorlds("C03", "Z", tier), ReplayCustom: replayVoxWorld("C03", "Z", tier),
					Rule: "BFS over worlds (root voxel + descendants two levels down, optionally the twin across f=-1|0); ops: Z[h,v] for a 5x5 window of target zooms (verified against the model through both APIs), M[h,v] and drop/add (drivers); non-trivial = distinct (state, Z target) whose result differs from the state"},
				{Name: "textual-prefix-lists", ShardDepth: 2, Bounds: engine.Bounds{InputDev: -1},
					Rule: "lists of 2-3 voxels whose ID strings are prefixes / decimal extensions of one another (y 7 vs 70, x 5 vs 57, f 1 vs 12, v 2 vs 21) in 4 orders x h in {7,13,20,35} x v in {2,3,20} x target zooms within +-1: result set = model (both APIs, repeated entries); non-trivial = distinct (list, target)",
					Body: func(c *engine.Ctx) {
						h := []int64{7, 13, 20, 35}[c.In("h", 4)]
						v := []int64{2, 3, 20}[c.In("v", 3)]
						ls := prefixLists(h, v)
						l := ls[c.In("list", len(ls))]
						th := h + int64(c.In("dh", 3)) - 1
						tv := v + int64(c.In("dv", 3)) - 1
						if th > 35 || tv > 35 {
							c.Skip("target-out-of-range")
						}
						for _, x := range l {
							if x.V-tv > 8 || tv-x.V > 8 {
								c.Skip("zoom-spread-too-large")
							}
						}
						ids := ref.Exts(l)
						viol, _ := checkZoom("C03", ids, l, th, tv)
						c.Observe("%v %d %d -> %d", ids, th, tv, len(viol))
						c.Nontrivial(fmt.Sprint(ids, th, tv))
						c.Outcome(fmt.Sprint(ids, th, tv))
						for _, x := range viol {
							c.Violation(x.Sig, x.Detail)
						}
					}},
				{Name: "vertical-helper", ShardDepth: 2, Bounds: engine.Bounds{InputDev: -1},
					Rule: "full product zin x zout (any coarsening, refining by <= 3... 10 levels) x f in VIdx(zin) (zooming out: also +-(2^53+3), +-(2^60+1) and the ends of int64): VerticalZoom vs arithmetic shift; non-trivial = distinct (zin,f,zout) with negative f and zout < zin",
					Body: func(c *engine.Ctx) {
						zin := zs[c.In("zin", len(zs))]
						zout := zs[c.In("zout", len(zs))]
						if zout-zin > 10 {
							c.Skip("refining-more-than-10-levels")
						}
						fs := alpha.VIdx(zin)
						if zout <= zin {
							// zooming out is defined for any int64 index (vertical shifts are unbounded): values that a
							// float64 cannot hold exactly and the ends of int64
							fs = append(append([]int64{}, fs...), 1<<53+3, -(1<<53 + 3), 1<<60+1, -(1<<60 + 1), math.MaxInt64, math.MaxInt64-2, math.MinInt64+1, math.MinInt64)
						}
						f := fs[c.In("f", len(fs))]
						got := integrate.VerticalZoom(zin, f, zout)
						lo, hi := ref.ZoomAxis1(zin, f, zout)
						c.Observe("V %d %d %d -> %d", zin, f, zout, len(got))
						if f < 0 && zout < zin {
							c.Nontrivial(fmt.Sprint(zin, f, zout))
						}
						ok := int64(len(got)) == hi-lo+1
						if ok {
							for i, g := range got {
								if g != strconv.FormatInt(zout, 10)+"/"+strconv.FormatInt(lo+int64(i), 10) {
									ok = false
									break
								}
							}
						}
						c.Outcome(strings.Join(head(got, 3), ","))
						if !ok {
							cls := ""
							if f < 0 && zout < zin {
								cls = "[negative-f-zoom-out]"
							}
							c.Violation("C03:VerticalZoom:differs-from-floor-shift"+cls, map[string]any{
								"call": fmt.Sprintf("integrate.VerticalZoom(%d, %d, %d)", zin, f, zout), "got": head(got, 6), "want_lo": lo, "want_hi": hi})
						}
					}},
				{Name: "horizontal-helper", ShardDepth: 2, Bounds: engine.Bounds{InputDev: -1},
					Rule: "full product zin x zout (any coarsening, refining <= 4 levels) x (x,y) in HIdx(zin)^2: HorizontalZoom and HorizontalZoomMinMax vs shifts; non-trivial = distinct cases with zout != zin",
					Body: func(c *engine.Ctx) {
						zin := zs[c.In("zin", len(zs))]
						zout := zs[c.In("zout", len(zs))]
						if zout-zin > 4 {
							c.Skip("refining-more-than-4-levels")
						}
						xs := alpha.HIdx(zin)
						x := xs[c.In("x", len(xs))]
						y := xs[c.In("y", len(xs))]
						xlo, xhi := ref.ZoomAxis1(zin, x, zout)
						ylo, yhi := ref.ZoomAxis1(zin, y, zout)
						a, b, cc, d := integrate.HorizontalZoomMinMax(zin, x, y, zout)
						c.Observe("H %d %d %d %d -> %d %d %d %d", zin, x, y, zout, a, b, cc, d)
						if zin != zout {
							c.Nontrivial(fmt.Sprint(zin, x, y, zout))
						}
						if a != xlo || b != ylo || cc != xhi || d != yhi {
							c.Violation("C03:HorizontalZoomMinMax:differs-from-shift", map[string]any{
								"call": fmt.Sprintf("integrate.HorizontalZoomMinMax(%d, %d, %d, %d)", zin, x, y, zout),
								"got":  []int64{a, b, cc, d}, "want": []int64{xlo, ylo, xhi, yhi}})
						}
						got := integrate.HorizontalZoom(zin, x, y, zout)
						want := map[string]bool{}
						for yy := ylo; yy <= yhi; yy++ {
							for xx := xlo; xx <= xhi; xx++ {
								want[fmt.Sprintf("%d/%d/%d", zout, xx, yy)] = true
							}
						}
						ok := len(got) == len(want) && dupOf(got) == ""
						for _, g := range got {
							if !want[g] {
								ok = false
							}
						}
						c.Outcome(strings.Join(head(got, 2), ","))
						if !ok {
							c.Violation("C03:HorizontalZoom:differs-from-shift", map[string]any{
								"call": fmt.Sprintf("integrate.HorizontalZoom(%d, %d, %d, %d)", zin, x, y, zout), "got": head(got, 6), "want_n": len(want)})
						}
					}},
			}
		},
	})
}
