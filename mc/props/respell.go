package props

import (
	"fmt"
	"reflect"
	"strings"

	"github.com/trajectoryjp/spatial_id_go/v4/common/object"
	"github.com/trajectoryjp/spatial_id_go/v4/shape"
	"github.com/trajectoryjp/spatial_id_go/v4/transform"

	"github.com/trajectoryjp/spatial_id_go/v4/detector"
	"github.com/trajectoryjp/spatial_id_go/v4/integrate"
	"github.com/trajectoryjp/spatial_id_go/v4/operated"

	"verif/mc/engine"
	"verif/mc/ref"
)

// IDs are decimal integers separated by '/', read with strconv.ParseInt: "05", "+5" and "-0" are
// valid spellings of 5, 5 and 0. An operation fed such a spelling must still treat it as the same
// voxel. The oracles of these phases work on VOXELS (every output string is parsed with the
// reference grammar): they do not demand a particular spelling of the output.

const respellModes = 5

// respell rewrites one ID in a valid non-canonical spelling.
func respell(id string, mode int) string {
	p := strings.Split(id, "/")
	sign := func(s string) string {
		if strings.HasPrefix(s, "-") {
			return s
		}
		return "+" + s
	}
	zero := func(s string) string {
		if strings.HasPrefix(s, "-") {
			return "-0" + s[1:]
		}
		return "0" + s
	}
	switch mode {
	case 0: // leading zero on the second field
		p[1] = zero(p[1])
	case 1: // explicit plus on the third field
		p[2] = sign(p[2])
	case 2: // leading zeros on both zoom fields (extended form: fields 0 and 3; z/f/x/y: field 0)
		p[0] = zero(p[0])
		if len(p) == 5 {
			p[3] = zero(p[3])
		}
	case 3: // every zero written -0, everything else with a leading zero
		for i := range p {
			if p[i] == "0" {
				p[i] = "-0"
			} else {
				p[i] = zero(p[i])
			}
		}
	case 4: // leading zero on the last field
		p[len(p)-1] = zero(p[len(p)-1])
	}
	return strings.Join(p, "/")
}

// voxelsOf parses output strings; bad is the first string that is not an ID, dup a voxel named twice.
func voxelsOf(out []string) (set map[ref.Vox]bool, bad, dup string) {
	set = map[ref.Vox]bool{}
	for _, s := range out {
		v, ok := ref.ParseExt(s)
		if !ok {
			return set, s, ""
		}
		if set[v] && dup == "" {
			dup = s
		}
		set[v] = true
	}
	return set, "", dup
}

func sameVoxSet(got map[ref.Vox]bool, want ref.Set) bool {
	if len(got) != len(want) {
		return false
	}
	for v := range want {
		if !got[v] {
			return false
		}
	}
	return true
}

// respelledLists: list shapes mixing canonical and respelled entries of one world.
func respelledLists(w world, mode int) [][]ref.Vox {
	ls := [][]ref.Vox{{w.root}}
	if w.root.H+1 <= 35 && w.root.V+1 <= 35 {
		ch := w.root.ChangeZoom(w.root.H+1, w.root.V+1)
		ls = append(ls, []ref.Vox{ch[0], ch[len(ch)-1]}, []ref.Vox{w.root, ch[1]})
	}
	if w.twin != nil {
		ls = append(ls, []ref.Vox{w.root, *w.twin})
	}
	return ls
}

// spellings of a list: which entries are respelled, and whether the canonical spelling of the first
// entry is listed as well (the same voxel twice under two names).
func spellList(l []ref.Vox, mode, which int) []string {
	var r []string
	switch which {
	case 0: // every entry respelled
		for _, v := range l {
			r = append(r, respell(v.Ext(), mode))
		}
	case 1: // first entry in both spellings, the rest canonical
		r = append(r, respell(l[0].Ext(), mode))
		for _, v := range l {
			r = append(r, v.Ext())
		}
	case 2: // canonical first, then the respelled first entry at the end
		for _, v := range l {
			r = append(r, v.Ext())
		}
		r = append(r, respell(l[0].Ext(), mode))
	}
	return r
}

func respellWorlds(tier string) []world {
	var use []world
	for _, w := range worlds(tier) {
		if w.root.H >= 1 || w.root.V >= 1 {
			use = append(use, w)
		}
	}
	return use
}

// respellZoomPhase: C03 (zoom change) and C04 (merge) on respelled lists.
func respellZoomPhase(prop string, tier string) engine.Phase {
	ws := respellWorlds(tier)
	return engine.Phase{Name: "respelled-ids", ShardDepth: 2, Bounds: engine.Bounds{InputDev: -1},
		Rule: "worlds x list shape x 5 valid non-canonical spellings (leading zeros, explicit +, -0; on index fields and on zoom fields) x {all entries respelled, one voxel listed under two spellings first / last} x target zooms {same, finer, coarser}: the result, read as voxels, is the model's result for the canonical list, names no voxel twice and is at the requested zooms; non-trivial = distinct lists naming one voxel under two spellings",
		Body: func(c *engine.Ctx) {
			w := ws[c.In("world", len(ws))]
			mode := c.In("spelling", respellModes)
			ls := respelledLists(w, mode)
			l := ls[c.In("list", len(ls))]
			which := c.In("which", 3)
			tz := c.In("target", 3)
			h, v := w.root.H, w.root.V
			switch tz {
			case 1:
				h, v = h+1, v+1
			case 2:
				h, v = h-1, v-1
			}
			if h < 0 || v < 0 || h > 35 || v > 35 {
				c.Skip("target-zoom-out-of-range")
			}
			ids := spellList(l, mode, which)
			if which > 0 {
				c.Nontrivial(fmt.Sprint(ids, h, v))
			}
			in, chk := guardedList(ids)
			var got []string
			var err error
			var want ref.Set
			var call string
			if prop == "C03" {
				got, err = integrate.ChangeExtendedSpatialIdsZoom(in, h, v)
				want = ref.ChangeZoomSet(l, h, v)
				call = fmt.Sprintf("integrate.ChangeExtendedSpatialIdsZoom(%s, %d, %d)", goList(ids), h, v)
			} else {
				got, err = integrate.MergeExtendedSpatialIds(in, h, v)
				want = ref.Merge(l, h, v)
				call = fmt.Sprintf("integrate.MergeExtendedSpatialIds(%s, %d, %d)", goList(ids), h, v)
			}
			c.Observe("%s -> %v %v", call, got, err)
			c.Outcome(fmt.Sprint(len(got), err != nil))
			d := map[string]any{"call": call, "got": head(got, 12)}
			if err != nil {
				d["err"] = err.Error()
				c.Violation(prop+":respelled-ids:error-on-valid-spelling", d)
				return
			}
			set, bad, dup := voxelsOf(got)
			if bad != "" {
				d["not_an_id"] = bad
				c.Violation(prop+":respelled-ids:output-is-not-an-id", d)
				return
			}
			if dup != "" {
				d["voxel_named_twice"] = dup
				c.Violation(prop+":respelled-ids:one-voxel-returned-under-two-spellings", d)
			}
			if !sameVoxSet(set, want) {
				d["want"] = head(ref.Exts(want.Sorted()), 12)
				c.Violation(prop+":respelled-ids:voxels-differ-from-model", d)
			}
			if m := chk(); m != "" {
				c.Violation(prop+":respelled-ids:input-slice-modified["+m+"]", d)
			}
		}}
}

// respellOverlapPhase: C05 on respelled IDs.
func respellOverlapPhase(tier string) engine.Phase {
	ws := respellWorlds(tier)
	return engine.Phase{Name: "respelled-ids", ShardDepth: 2, Bounds: engine.Bounds{InputDev: -1},
		Rule: "worlds x ordered pairs from {root, first and last child, parent, twin} x 5 valid non-canonical spellings applied to the first, the second or both IDs: the pairwise and the array form answer what the model answers for the canonical IDs, in both argument orders; non-trivial = distinct pairs at different zooms",
		Body: func(c *engine.Ctx) {
			w := ws[c.In("world", len(ws))]
			pool := []ref.Vox{w.root}
			if w.root.H+1 <= 35 && w.root.V+1 <= 35 {
				ch := w.root.ChangeZoom(w.root.H+1, w.root.V+1)
				pool = append(pool, ch[0], ch[len(ch)-1])
			}
			if w.root.H >= 1 && w.root.V >= 1 {
				pool = append(pool, w.root.ChangeZoom(w.root.H-1, w.root.V-1)[0])
			}
			if w.twin != nil {
				pool = append(pool, *w.twin)
			}
			a := pool[c.In("a", len(pool))]
			b := pool[c.In("b", len(pool))]
			mode := c.In("spelling", respellModes)
			who := c.In("who", 3)
			sa, sb := a.Ext(), b.Ext()
			if who != 1 {
				sa = respell(sa, mode)
			}
			if who != 0 {
				sb = respell(sb, mode)
			}
			want := ref.Overlap(a, b)
			if a.H != b.H || a.V != b.V {
				c.Nontrivial(fmt.Sprint(sa, sb))
			}
			d := map[string]any{"a": sa, "b": sb, "want": want}
			g1, e1 := detector.CheckExtendedSpatialIdsOverlap(sa, sb)
			g2, e2 := detector.CheckExtendedSpatialIdsOverlap(sb, sa)
			g3, e3 := detector.CheckExtendedSpatialIdsArrayOverlap([]string{sa}, []string{sb})
			g4, e4 := detector.CheckExtendedSpatialIdsArrayOverlap([]string{b.Ext(), sb}, []string{sa, a.Ext()})
			c.Observe("%s %s -> %v %v %v %v", sa, sb, g1, g2, g3, g4)
			c.Outcome(fmt.Sprint(g1, g2, g3, g4))
			if e1 != nil || e2 != nil || e3 != nil || e4 != nil {
				d["err"] = fmt.Sprint(e1, e2, e3, e4)
				c.Violation("C05:respelled-ids:error-on-valid-spelling", d)
				return
			}
			if g1 != want || g2 != want || g3 != want || g4 != want {
				d["got"] = fmt.Sprint(g1, g2, g3, g4)
				c.Violation("C05:respelled-ids:answer-differs-from-model", d)
			}
		}}
}

// respellNeighbourPhase: C07 (shift) and C08 (stencils, N layers) on respelled IDs.
func respellNeighbourPhase(prop string, tier string) engine.Phase {
	ws := respellWorlds(tier)
	return engine.Phase{Name: "respelled-ids", ShardDepth: 2, Bounds: engine.Bounds{InputDev: -1},
		Rule: "worlds x 5 valid non-canonical spellings: the shift / the 6-, 8-, 26-neighbour queries of the respelled ID name the voxels the model gives for the canonical ID; the N-layer query (1,1) of a list naming one voxel under two spellings names the model's voxels, none twice; non-trivial = distinct (world, spelling)",
		Body: func(c *engine.Ctx) {
			w := ws[c.In("world", len(ws))]
			mode := c.In("spelling", respellModes)
			id := respell(w.root.Ext(), mode)
			c.Nontrivial(id)
			c.Observe("%s", id)
			d := map[string]any{"id": id}
			judge := func(what string, got []string, want ref.Set, noDup bool) {
				set, bad, dup := voxelsOf(got)
				dd := map[string]any{"id": id, "query": what, "got": head(got, 10)}
				if bad != "" {
					dd["not_an_id"] = bad
					c.Violation(prop+":respelled-ids:output-is-not-an-id", dd)
					return
				}
				if noDup && dup != "" {
					dd["voxel_named_twice"] = dup
					c.Violation(prop+":respelled-ids:one-voxel-returned-under-two-spellings", dd)
				}
				if !sameVoxSet(set, want) {
					dd["want"] = head(ref.Exts(want.Sorted()), 10)
					c.Violation(prop+":respelled-ids:voxels-differ-from-model", dd)
				}
			}
			if prop == "C07" {
				for _, s := range [][3]int64{{0, 0, 0}, {1, 0, 0}, {-1, 2, -3}, {0, -1, 1}} {
					got := operated.GetShiftingSpatialID(id, s[0], s[1], s[2])
					judge(fmt.Sprint("shift", s), []string{got}, ref.NewSet(w.root.Shift(s[0], s[1], s[2])), false)
				}
				_ = d
				return
			}
			for _, kind := range []int{6, 8, 26} {
				want := ref.Set{}
				for _, o := range stencil(kind) {
					want.Add(w.root.Shift(o[0], o[1], o[2]))
				}
				judge(fmt.Sprint("neighbours", kind), neighbourFn(kind)(id), want, false)
			}
			for which := 1; which <= 2; which++ {
				ids := spellList([]ref.Vox{w.root}, mode, which)
				got, err := operated.GetNspatialIdsAroundVoxcels(ids, 1, 1)
				if err != nil {
					c.Violation("C08:respelled-ids:error-on-valid-spelling", map[string]any{"ids": ids, "err": err.Error()})
					continue
				}
				want := ref.Set{}
				for dx := int64(-1); dx <= 1; dx++ {
					for dy := int64(-1); dy <= 1; dy++ {
						for dv := int64(-1); dv <= 1; dv++ {
							if dx != 0 || dy != 0 || dv != 0 {
								want.Add(w.root.Shift(dx, dy, dv))
							}
						}
					}
				}
				judge(fmt.Sprint("N-layers(1,1) of ", ids), got, want, true)
			}
		}}
}

// respellNotationPhase: C10 (parsing, notation rewriting) and C11 (quadkey conversion) on respelled IDs.
func respellNotationPhase(prop string, tier string) engine.Phase {
	ws := respellWorlds(tier)
	return engine.Phase{Name: "respelled-ids", Serial: true, Bounds: engine.Bounds{InputDev: -1},
		Rule: "worlds x 5 valid non-canonical spellings: C10 — parsing the respelled ID yields the five numbers of the canonical one and prints an ID of the same voxel; rewriting z/f/x/y <-> extended keeps the voxel, entry by entry; C11 — converting [canonical, respelled] to (quadkey, vertical index) pairs gives the pairs of the canonical ID alone, none twice; non-trivial = distinct (world, spelling)",
		Body: func(c *engine.Ctx) {
			w := ws[c.In("world", len(ws))]
			mode := c.In("spelling", respellModes)
			id := respell(w.root.Ext(), mode)
			c.Nontrivial(id)
			c.Observe("%s", id)
			d := map[string]any{"id": id, "canonical": w.root.Ext()}
			if prop == "C10" {
				o, err := object.NewExtendedSpatialID(id)
				if err != nil {
					c.Violation("C10:respelled-ids:error-on-valid-spelling", d)
					return
				}
				if !reflect.DeepEqual(o.FieldParams(), []int64{w.root.H, w.root.X, w.root.Y, w.root.V, w.root.F}) {
					d["got"] = o.FieldParams()
					c.Violation("C10:respelled-ids:parsed-numbers-differ", d)
				}
				if pv, ok := ref.ParseExt(o.ID()); !ok || pv != w.root {
					d["printed"] = o.ID()
					c.Violation("C10:respelled-ids:printed-id-is-another-voxel", d)
				}
				if w.root.H == w.root.V {
					sid := respell(w.root.Spatial(), mode)
					ext, e1 := shape.ConvertSpatialIdsToExtendedSpatialIds([]string{sid, w.root.Spatial()})
					d["spatial"] = sid
					if e1 != nil || len(ext) != 2 {
						c.Violation("C10:respelled-ids:notation-rewrite-fails", d)
						return
					}
					for _, e := range ext {
						if pv, ok := ref.ParseExt(e); !ok || pv != w.root {
							d["got"] = ext
							c.Violation("C10:respelled-ids:notation-rewrite-changes-the-voxel", d)
						}
					}
					back, e2 := shape.ConvertExtendedSpatialIdsToSpatialIds([]string{id, w.root.Ext()})
					if e2 != nil || len(back) != 2 {
						c.Violation("C10:respelled-ids:notation-rewrite-fails", d)
						return
					}
					for _, b := range back {
						if pv, ok := ref.ParseSpatial(b); !ok || pv != w.root {
							d["got"] = back
							c.Violation("C10:respelled-ids:notation-rewrite-changes-the-voxel", d)
						}
					}
				}
				return
			}
			// C11
			if w.root.H < 1 || w.root.H > 31 {
				c.Skip("no-quadkey-at-this-zoom")
			}
			one, e0 := transform.ConvertExtendedSpatialIDsToQuadkeysAndVerticalIDs([]string{w.root.Ext()}, w.root.H, w.root.V, 0, 0)
			for which := 0; which <= 2; which++ {
				ids := spellList([]ref.Vox{w.root}, mode, which)
				gs, err := transform.ConvertExtendedSpatialIDsToQuadkeysAndVerticalIDs(ids, w.root.H, w.root.V, 0, 0)
				d["ids"] = ids
				if e0 != nil || err != nil {
					c.Violation("C11:respelled-ids:error-on-valid-spelling", d)
					return
				}
				got := pairsOf(gs)
				if _, dup := dupPair(got); dup {
					d["got"] = fmt.Sprint(got)
					c.Violation("C11:respelled-ids:pair-reported-twice", d)
				}
				want := pairsOf(one)
				if len(got) != len(want) || len(want) != 1 || got[0] != want[0] {
					d["got"], d["want"] = fmt.Sprint(got), fmt.Sprint(want)
					c.Violation("C11:respelled-ids:pairs-differ-from-canonical", d)
				}
			}
		}}
}
