package props

import (
	"fmt"
	"math"

	"github.com/trajectoryjp/spatial_id_go/v4/common/object"
	"github.com/trajectoryjp/spatial_id_go/v4/shape"

	"verif/mc/alpha"
	"verif/mc/engine"
	"verif/mc/ref"
)

func dedupeF(in []float64, keep func(float64) bool) []float64 {
	seen := map[uint64]bool{}
	var r []float64
	for _, v := range in {
		b := math.Float64bits(v)
		if seen[b] || !keep(v) {
			continue
		}
		seen[b] = true
		r = append(r, v)
	}
	return r
}

// lonAlphabet: for every boundary class of the column alphabet the exact
// boundary, one ulp either side, +-1e-9 cell, the cell centre; plus the domain edges.
func lonAlphabet(h int64, full bool) []float64 {
	cell := 360 / math.Ldexp(1, int(h))
	var r []float64
	r = append(r, 0, math.Copysign(0, -1), 180, -180, math.Nextafter(180, 0), math.Nextafter(-180, 0))
	for _, b := range alpha.HIdx(h) {
		w := ref.LonBoundary(b, h)
		r = append(r, w, math.Nextafter(w, -400), math.Nextafter(w, 400), w+cell/2)
		if full {
			r = append(r, w-1e-9*cell, w+1e-9*cell, w+cell*(1-1e-9))
		}
	}
	return dedupeF(r, func(v float64) bool { return v >= -180 && v <= 180 })
}

// latAlphabet: row boundaries +- delta (outside the undecided band), the boundary
// itself, quarter cells, centres; plus the domain edges.
func latAlphabet(h int64, full bool) []float64 {
	var r []float64
	r = append(r, 0, ref.LatLimit, -ref.LatLimit, ref.LatLimit-1e-10, -(ref.LatLimit - 1e-10), 1e-10, -1e-10)
	n := int64(1) << uint(h)
	for _, b := range alpha.HIdx(h) {
		top := ref.RowBoundaryLat(b, h)
		bot := ref.RowBoundaryLat(b+1, h)
		cell := top - bot
		delta := math.Max(1e-3*cell, 4e-10)
		r = append(r, top, top-delta, top+delta, top-cell/2)
		if full {
			r = append(r, top-cell/4, top-3*cell/4, bot+delta)
		}
		_ = n
	}
	return dedupeF(r, func(v float64) bool { return math.Abs(v) <= ref.LatLimit })
}

func altAlphabet(v int64, full bool) []float64 {
	cell := math.Ldexp(1, int(25-v))
	top := math.Ldexp(1, 25)
	r := []float64{0, math.Copysign(0, -1), 1e-300, -1e-300, top, -top, math.Nextafter(top, 0), math.Nextafter(-top, 0), 12.345, -12.345}
	for _, f := range alpha.VIdx(v) {
		b := ref.AltBoundary(f, v)
		r = append(r, b, math.Nextafter(b, -1e300), math.Nextafter(b, 1e300), b+cell/2)
		if full {
			r = append(r, b-1e-9*cell, b+1e-9*cell)
		}
	}
	return dedupeF(r, func(x float64) bool { return math.Abs(x) <= top })
}

func init() {
	engine.Register(&engine.Check{
		ID:        "C01",
		Title:     "A point is mapped to the one grid voxel that contains it",
		Technique: "exhaustive choice-tree enumeration (E1) of zoom pairs x boundary-centred coordinate alphabets (exact boundary, one ulp either side, near and far neighbours, domain edges) against exact rational (x, f) and tolerance-banded (y) references; short point lists for order/length",
		Assumptions: []string{
			"coordinates between the boundary neighbourhoods are not covered; subnormal altitudes (|alt| < 2^-1000) are excluded",
			"the latitude row is not decided within 2^-43 of the map height of a row boundary (float64 evaluation error of the documented formula); there only the index range is checked",
			"reference: big.Rat for x and f; float64 asinh(tan) for y",
		},
		Phases: func(tier string) []engine.Phase {
			zs := zooms(tier)
			full := tier == "thorough"
			return []engine.Phase{
				longPointListPhase(tier),
				{Name: "lon-alt-exact", ShardDepth: 2, Bounds: engine.Bounds{InputDev: -1},
					Rule: "full product h x v x lon in lonAlphabet(h) x alt in altAlphabet(v) (lat fixed per h from 3 classes): x and f equal the exact rational floor, 0 <= x < 2^h; spatial form agrees when h = v; non-trivial = distinct (h,lon) within 2 ulp of a column boundary or (v,alt) within 2 ulp of a cell boundary",
					Body: func(c *engine.Ctx) {
						h := zs[c.In("h", len(zs))]
						v := zs[c.In("v", len(zs))]
						lons := lonAlphabet(h, full)
						lon := lons[c.In("lon", len(lons))]
						alts := altAlphabet(v, full)
						alt := alts[c.In("alt", len(alts))]
						lat := []float64{35.6, 0, -84.9}[c.In("lat", 3)]
						checkPoint(c, lon, lat, alt, h, v, true)
					}},
				{Name: "lat-banded", ShardDepth: 2, Bounds: engine.Bounds{InputDev: -1},
					Rule: "full product h x lat in latAlphabet(h) x lon in {-180, 0, 139.7, 180}: y equals the reference row outside the undecided band, 0 <= y < 2^h always; non-trivial = distinct (h,lat) outside the band within 1% of a cell of a row boundary",
					Body: func(c *engine.Ctx) {
						h := zs[c.In("h", len(zs))]
						lats := latAlphabet(h, full)
						lat := lats[c.In("lat", len(lats))]
						lon := []float64{-180, 0, 139.7, 180}[c.In("lon", 4)]
						checkPoint(c, lon, lat, -3.5, h, 25, false)
					}},
				{Name: "boundary-pair-lists", ShardDepth: 2, Bounds: engine.Bounds{InputDev: -1},
					Rule: "full product h x column/row boundary class x axis x gap in {1 ulp, 5e-11 deg, 2e-10 deg} x shape {[west,east],[east,west],[west,far,east],[west,west,east]}: consecutive list entries that are almost equal but lie in different tiles; every output must equal the ID of that point looked up alone (both APIs); non-trivial = distinct cases whose two near points get different IDs",
					Body: func(c *engine.Ctx) {
						h := zs[c.In("h", len(zs))]
						bs := alpha.HIdx(h)
						b := bs[c.In("boundary", len(bs))]
						axis := c.In("axis", 2)
						gap := c.In("gap", 3)
						shape := c.In("shape", 4)
						var w, e [2]float64 // (lon, lat) just before and on/after the boundary
						if axis == 0 {
							x := ref.LonBoundary(b, h)
							below := []float64{math.Nextafter(x, -400), x - 5e-11, x - 2e-10}[gap]
							if below < -180 {
								c.Skip("outside-domain")
							}
							w, e = [2]float64{below, 35.68}, [2]float64{x, 35.68}
						} else {
							y := ref.RowBoundaryLat(b, h) // northern edge of row b: just north of it is row b-1
							if math.Abs(y) > ref.LatLimit-1e-9 {
								c.Skip("outside-domain")
							}
							d := []float64{4e-10, 5e-10, 6e-10}[gap] // beyond the 1e-10 storage resolution on both sides
							w, e = [2]float64{139.7, y + d}, [2]float64{139.7, y - d}
						}
						mk := func(p [2]float64) *object.Point { q, _ := object.NewPoint(p[0], p[1], 12.5); return q }
						far := mk([2]float64{-73.9, -40.7})
						var list []*object.Point
						switch shape {
						case 0:
							list = []*object.Point{mk(w), mk(e)}
						case 1:
							list = []*object.Point{mk(e), mk(w)}
						case 2:
							list = []*object.Point{mk(w), far, mk(e)}
						case 3:
							list = []*object.Point{mk(w), mk(w), mk(e)}
						}
						got, err := shape2IDs(list, h)
						d := map[string]any{"h": h, "west": w, "east": e, "shape": shape, "got": got}
						if err != nil || len(got) != len(list) {
							c.Violation("C01:GetExtendedSpatialIdsOnPoints:length-not-preserved", d)
							return
						}
						c.Observe("%v %v %d -> %v", w, e, shape, got)
						for i, p := range list {
							one, _ := shape2IDs([]*object.Point{p}, h)
							if got[i] != one[0] {
								d["index"], d["alone"] = i, one[0]
								c.Violation("C01:GetExtendedSpatialIdsOnPoints:list-entry-differs-from-single-lookup[near-equal-neighbours]", d)
								break
							}
						}
						a1, _ := shape2IDs([]*object.Point{mk(w)}, h)
						a2, _ := shape2IDs([]*object.Point{mk(e)}, h)
						if a1[0] != a2[0] {
							c.Nontrivial(fmt.Sprint(h, b, axis, gap, shape))
						}
						c.Outcome(fmt.Sprint(got))
					}},
				{Name: "lists", Serial: true, Bounds: engine.Bounds{InputDev: -1},
					Rule: "lists of length 0..3 from 4 distinct points (with repeats): output i is the ID of input i (length and order), both APIs; a nil element anywhere is an error; non-trivial = distinct lists of length >= 2",
					Body: func(c *engine.Ctx) {
						pts := [][3]float64{{139.7, 35.6, 10}, {-0.1, 51.5, -3}, {180, -84, 0}, {-180, 84, 1e6}, {139.7, 35.6, -900}}
						n := c.In("len", 4)
						var list []*object.Point
						var idx []int
						for i := 0; i < n; i++ {
							k := c.In("pt", len(pts)+1)
							idx = append(idx, k)
							if k == len(pts) {
								list = append(list, nil)
								continue
							}
							p, _ := object.NewPoint(pts[k][0], pts[k][1], pts[k][2])
							list = append(list, p)
						}
						hz := []int64{0, 7, 25, 35}[c.In("h", 4)]
						got, err := shape.GetExtendedSpatialIdsOnPoints(list, hz, 20)
						gotS, errS := shape.GetSpatialIdsOnPoints(list, hz)
						c.Observe("%v -> %v %v", idx, got, err)
						if n >= 2 {
							c.Nontrivial(fmt.Sprint(idx, hz))
						}
						hasNil := false
						for _, k := range idx {
							if k == len(pts) {
								hasNil = true
							}
						}
						d := map[string]any{"points": idx, "hZoom": hz, "got": got, "gotSpatial": gotS}
						if hasNil {
							if err == nil || errS == nil || len(got) != 0 || len(gotS) != 0 {
								c.Violation("C01:GetExtendedSpatialIdsOnPoints:nil-point-not-rejected", d)
							}
							return
						}
						if err != nil || errS != nil || len(got) != n || len(gotS) != n {
							c.Violation("C01:GetExtendedSpatialIdsOnPoints:length-not-preserved", d)
							return
						}
						for i, k := range idx {
							p, _ := object.NewPoint(pts[k][0], pts[k][1], pts[k][2])
							one, _ := shape.GetExtendedSpatialIdsOnPoints([]*object.Point{p}, hz, 20)
							oneS, _ := shape.GetSpatialIdsOnPoints([]*object.Point{p}, hz)
							if got[i] != one[0] || gotS[i] != oneS[0] {
								c.Violation("C01:GetExtendedSpatialIdsOnPoints:order-not-preserved", d)
							}
						}
					}},
			}
		},
	})
}

// checkPoint applies the C01 oracle to one point and zoom pair.
func checkPoint(c *engine.Ctx, lon, lat, alt float64, h, v int64, exactAxes bool) {
	p, err := object.NewPoint(lon, lat, alt)
	if err != nil {
		c.Skip("point-rejected")
	}
	ids, err := shape.GetExtendedSpatialIdsOnPoints([]*object.Point{p}, h, v)
	call := fmt.Sprintf("shape.GetExtendedSpatialIdsOnPoints(NewPoint(%v(0x%x), %v, %v(0x%x)), %d, %d)", lon, math.Float64bits(lon), lat, alt, math.Float64bits(alt), h, v)
	d := map[string]any{"call": call}
	if err != nil || len(ids) != 1 {
		c.Violation("C01:GetExtendedSpatialIdsOnPoints:error-on-valid-input", d)
		return
	}
	got, ok := ref.ParseExt(ids[0])
	c.Observe("%s -> %s", call, ids[0])
	d["got"] = ids[0]
	if !ok || got.H != h || got.V != v {
		c.Violation("C01:GetExtendedSpatialIdsOnPoints:malformed-or-wrong-zoom-result", d)
		return
	}
	n := int64(1) << uint(h)
	c.Outcome(ids[0])
	if got.X < 0 || got.X >= n {
		cls := ""
		if lon < 180 && lon > 179.9999 {
			cls = "[lon-just-below-180]"
		}
		c.Violation("C01:GetExtendedSpatialIdsOnPoints:x-outside-index-range"+cls, d)
	}
	if got.Y < 0 || got.Y >= n {
		c.Violation("C01:GetExtendedSpatialIdsOnPoints:y-outside-index-range", d)
	}
	wx := ref.LonIndex(p.Lon(), h)
	wf := ref.AltIndex(p.Alt(), v)
	wy, inBand := ref.LatRow(p.Lat(), h)
	d["want_x"], d["want_f"], d["want_y"], d["y_in_undecided_band"] = wx, wf, wy, inBand
	if exactAxes {
		wb := ref.LonBoundary(wx, h)
		eb := ref.LonBoundary(wx+1, h)
		if math.Nextafter(math.Nextafter(p.Lon(), -400), -400) < wb || math.Nextafter(math.Nextafter(p.Lon(), 400), 400) >= eb {
			c.Nontrivial(fmt.Sprint("lon", h, math.Float64bits(lon)))
		}
		if got.X != wx && got.X >= 0 && got.X < n {
			cls := "[more-than-1-ulp-from-boundary]"
			if got.X == wx+1 && math.Nextafter(p.Lon(), 400) >= eb {
				cls = "[1-ulp-west-of-column-boundary]"
			}
			c.Violation("C01:GetExtendedSpatialIdsOnPoints:x-differs-from-exact-floor"+cls, d)
		}
		if got.F != wf {
			c.Violation("C01:GetExtendedSpatialIdsOnPoints:f-differs-from-exact-floor", d)
		}
	} else {
		if !inBand {
			c.Nontrivial(fmt.Sprint("lat", h, math.Float64bits(lat)))
			if got.Y != wy {
				c.Violation("C01:GetExtendedSpatialIdsOnPoints:y-differs-from-reference-row-outside-band", d)
			}
		} else {
			c.Count("lat_in_undecided_band")
			if got.Y != wy && got.Y != wy-1 && got.Y != wy+1 {
				c.Violation("C01:GetExtendedSpatialIdsOnPoints:y-far-from-reference-row-inside-band", d)
			}
		}
	}
	if h == v {
		sp, err := shape.GetSpatialIdsOnPoints([]*object.Point{p}, h)
		if err != nil || len(sp) != 1 || sp[0] != got.Spatial() {
			d["gotSpatial"] = sp
			c.Violation("C01:GetSpatialIdsOnPoints:not-the-same-voxel-permuted", d)
		}
	}
}

// shape2IDs looks the points up through both APIs and returns "<extended>|<spatial>" per point.
func shape2IDs(list []*object.Point, h int64) ([]string, error) {
	a, err := shape.GetExtendedSpatialIdsOnPoints(list, h, 20)
	if err != nil {
		return nil, err
	}
	b, err := shape.GetSpatialIdsOnPoints(list, h)
	if err != nil || len(a) != len(b) {
		return nil, fmt.Errorf("spatial form: %v", err)
	}
	r := make([]string, len(a))
	for i := range a {
		r[i] = a[i] + "|" + b[i]
	}
	return r, nil
}
