package props

import (
	"fmt"

	"github.com/trajectoryjp/spatial_id_go/v4/integrate"

	"verif/mc/engine"
	"verif/mc/ref"
)

func init() {
	engine.Register(&engine.Check{
		ID:        "C04",
		Title:     "Merging never changes the covered region, merges all it can, and is idempotent",
		Technique: "explicit-state BFS (E2) over the VoxelSets operation machine; every merge transition compared with the dyadic-box reference (expected set, region equality by cell refinement, idempotence), both APIs",
		Assumptions: []string{
			"zoom spread bounded (<= 4 levels per axis) and at most 12000 unit cells per merge call, as the function documents unbounded memory otherwise",
			"states reachable within the BFS depth from the initial states of each world; other list shapes are not covered",
			"reference model: ref.Merge / ref.Cells",
		},
		Phases: func(tier string) []engine.Phase {
			return []engine.Phase{
				respellZoomPhase("C04", tier),
				{Name: "textual-prefix-lists", ShardDepth: 2, Bounds: engine.Bounds{InputDev: -1},
					Rule: "lists of 2-3 voxels whose ID strings are prefixes / decimal extensions of one another in 4 orders x h in {7,13,20,35} x v in {2,3,20} x merge targets within -1..0 of the list zooms: result = model, region preserved, idempotent; non-trivial = distinct (list, target)",
					Body: func(c *engine.Ctx) {
						h := []int64{7, 13, 20, 35}[c.In("h", 4)]
						v := []int64{2, 3, 20}[c.In("v", 3)]
						ls := prefixLists(h, v)
						l := ls[c.In("list", len(ls))]
						th := h - int64(c.In("dh", 2))
						tv := v - int64(c.In("dv", 2))
						if mergeUnitCells(l, th, tv) > maxUnitCells {
							c.Skip("merge-unit-cells-over-budget")
						}
						ids := ref.Exts(l)
						viol, _ := checkMerge("C04", ids, l, th, tv)
						c.Observe("%v %d %d -> %d", ids, th, tv, len(viol))
						c.Nontrivial(fmt.Sprint(ids, th, tv))
						c.Outcome(fmt.Sprint(ids, th, tv))
						for _, x := range viol {
							c.Violation(x.Sig, x.Detail)
						}
					}},
				{Name: "far-targets", ShardDepth: 2, Bounds: engine.Bounds{InputDev: -1},
					Rule: "lists of 1-3 fine IDs (zoom pairs (25,25), (30,30), (35,35), (35,20), (20,35); single, two siblings, two stacked; f in {5,-1}) merged to targets 20 .. 35 levels coarser on either axis (the number of unit cells of a target voxel reaches and exceeds 2^63): such lists can never fill the target voxel, so the result is the input set (model), through both entry points; non-trivial = distinct (list, target) with 2*dh+dv >= 63",
					Body: func(c *engine.Ctx) {
						fz := [][2]int64{{25, 25}, {30, 30}, {35, 35}, {35, 20}, {20, 35}}[c.In("fine", 5)]
						f := []int64{5, -1}[c.In("f", 2)]
						a := ref.Vox{H: fz[0], X: (int64(1) << uint(fz[0])) - 3, Y: 5, V: fz[1], F: f}
						var l []ref.Vox
						switch c.In("shape", 3) {
						case 0:
							l = []ref.Vox{a}
						case 1:
							l = []ref.Vox{a, a.Shift(1, 0, 0)}
						case 2:
							l = []ref.Vox{a.Shift(0, 0, 1), a}
						}
						dhs := []int64{0, 20, 21, 22, 31, 32, 35}
						dvs := []int64{0, 20, 21, 23, 35}
						th := fz[0] - dhs[c.In("dh", len(dhs))]
						tv := fz[1] - dvs[c.In("dv", len(dvs))]
						if th < 0 || tv < 0 {
							c.Skip("target-zoom-below-0")
						}
						ids := ref.Exts(l)
						want := canonSet(ref.Merge(l, th, tv))
						got, err := integrate.MergeExtendedSpatialIds(ids, th, tv)
						call := fmt.Sprintf("integrate.MergeExtendedSpatialIds(%s, %d, %d)", goList(ids), th, tv)
						c.Observe("%s -> %v %v", call, got, err)
						if 2*(fz[0]-th)+(fz[1]-tv) >= 63 {
							c.Nontrivial(call)
						}
						c.Outcome(fmt.Sprint(len(got)))
						d := map[string]any{"call": call, "got": head(got, 6), "want": head(want, 6)}
						if err != nil {
							c.Violation("C04:MergeExtendedSpatialIds:error-on-valid-input", d)
							return
						}
						if m, e := diffSets(got, want); len(m)+len(e) > 0 || dupOf(got) != "" {
							c.Violation("C04:MergeExtendedSpatialIds:result-set-differs-from-dyadic-model[far-target]", d)
						}
						if fz[0] == fz[1] && th == tv && f >= -(int64(1)<<uint(fz[0]-1)) {
							sp := make([]string, len(l))
							ws := make([]string, 0, len(want))
							for i, x := range l {
								sp[i] = x.Spatial()
							}
							for _, w := range want {
								ws = append(ws, ref.MustExt(w).Spatial())
							}
							gs, err := integrate.MergeSpatialIds(sp, th)
							if m, e := diffSets(gs, ws); err != nil || len(m)+len(e) > 0 {
								d["spatial_got"] = head(gs, 6)
								c.Violation("C04:MergeSpatialIds:result-set-differs-from-dyadic-model[far-target]", d)
							}
						}
					}},
				{Name: "voxelsets-machine-merge", Custom: runVoxWorlds("C04", "M", tier), ReplayCustom: replayVoxWorld("C04", "M", tier),
					Rule: "BFS over worlds; ops: M[h,v] for a 5x5 window of target zooms (verified: result set = model, no duplicates, region preserved, idempotent, MergeSpatialIds agrees on h=v states), Z[h,v] and drop/add (drivers producing complete groups, groups missing one cell, groups straddling f=-1|0, nested and mixed-zoom entries); non-trivial = distinct (state, M target) whose result differs from the state"},
			}
		},
	})
}
