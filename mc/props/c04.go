package props

import (
	"verif/mc/engine"
)

func init() {
	engine.Register(&engine.Check{
		ID:        "C04",
		Title:     "Merging never changes the covered region, merges all it can, and is idempotent",
		Technique: "explicit-state BFS (E2) over the VoxelSets operation machine; every merge transition compared with the dyadic-box reference (expected set, region equality by cell refinement, idempotence), both APIs",
		Assumptions: []string{
			"zoom spread bounded (<= 4 levels per axis) and at most 12000 unit cells per merge call, as the function documents unbounded memory otherwise",
			"states reachable within the BFS depth from the initial states of each world; other list shapes are not covered",
			"reference model: ref.Merge / ref.Cells",
		},
		Phases: func(tier string) []engine.Phase {
			return []engine.Phase{
				{Name: "voxelsets-machine-merge", Custom: runVoxWorlds("C04", "M", tier), ReplayCustom: replayVoxWorld("C04", "M", tier),
					Rule: "BFS over worlds; ops: M[h,v] for a 5x5 window of target zooms (verified: result set = model, no duplicates, region preserved, idempotent, MergeSpatialIds agrees on h=v states), Z[h,v] and drop/add (drivers producing complete groups, groups missing one cell, groups straddling f=-1|0, nested and mixed-zoom entries); non-trivial = distinct (state, M target) whose result differs from the state"},
			}
		},
	})
}
