package props

import (
	"fmt"

	"verif/mc/engine"
	"verif/mc/ref"
)

func init() {
	engine.Register(&engine.Check{
		ID:        "C04",
		Title:     "Merging never changes the covered region, merges all it can, and is idempotent",
		Technique: "explicit-state BFS (E2) over the VoxelSets operation machine; every merge transition compared with the dyadic-box reference (expected set, region equality by cell refinement, idempotence), both APIs",
		Assumptions: []string{
			"zoom spread bounded (<= 4 levels per axis) and at most 12000 unit cells per merge call, as the function documents unbounded memory otherwise",
			"states reachable within the BFS depth from the initial states of each world; other list shapes are not covered",
			"reference model: ref.Merge / ref.Cells",
		},
		Phases: func(tier string) []engine.Phase {
			return []engine.Phase{
				respellZoomPhase("C04", tier),
				{Name: "textual-prefix-lists", ShardDepth: 2, Bounds: engine.Bounds{InputDev: -1},
					Rule: "lists of 2-3 voxels whose ID strings are prefixes / decimal extensions of one another in 4 orders x h in {7,13,20,35} x v in {2,3,20} x merge targets within -1..0 of the list zooms: result = model, region preserved, idempotent; non-trivial = distinct (list, target)",
					Body: func(c *engine.Ctx) {
						h := []int64{7, 13, 20, 35}[c.In("h", 4)]
						v := []int64{2, 3, 20}[c.In("v", 3)]
						ls := prefixLists(h, v)
						l := ls[c.In("list", len(ls))]
						th := h - int64(c.In("dh", 2))
						tv := v - int64(c.In("dv", 2))
						if mergeUnitCells(l, th, tv) > maxUnitCells {
							c.Skip("merge-unit-cells-over-budget")
						}
						ids := ref.Exts(l)
						viol, _ := checkMerge("C04", ids, l, th, tv)
						c.Observe("%v %d %d -> %d", ids, th, tv, len(viol))
						c.Nontrivial(fmt.Sprint(ids, th, tv))
						c.Outcome(fmt.Sprint(ids, th, tv))
						for _, x := range viol {
							c.Violation(x.Sig, x.Detail)
						}
					}},
				{Name: "voxelsets-machine-merge", Custom: runVoxWorlds("C04", "M", tier), ReplayCustom: replayVoxWorld("C04", "M", tier),
					Rule: "BFS over worlds; ops: M[h,v] for a 5x5 window of target zooms (verified: result set = model, no duplicates, region preserved, idempotent, MergeSpatialIds agrees on h=v states), Z[h,v] and drop/add (drivers producing complete groups, groups missing one cell, groups straddling f=-1|0, nested and mixed-zoom entries); non-trivial = distinct (state, M target) whose result differs from the state"},
			}
		},
	})
}
