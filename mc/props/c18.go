package props

import (
	"fmt"
	"math"

	"github.com/trajectoryjp/spatial_id_go/v4/common/object"
	"github.com/trajectoryjp/spatial_id_go/v4/shape"
	"github.com/wroge/wgs84"

	"verif/mc/engine"
	"verif/mc/ref"
)

const mercR = 6378137.0

func lonDiff(a, b float64) float64 {
	d := math.Mod(math.Abs(a-b), 360)
	if d > 180 {
		d = 360 - d
	}
	return d
}

func init() {
	engine.Register(&engine.Check{
		ID:          "C18",
		Title:       "Projection to a planar CRS and back returns the same point",
		Technique:   "exhaustive choice-tree enumeration (E1) of a point alphabet (domain edges, both hemispheres) x list shapes for EPSG:3857 against closed-form spherical Mercator and the round trip; every code of the bundled EPSG table for the structural claims; unknown codes",
		Assumptions: []string{"points outside the alphabet are not covered", "closed-form reference: X = R*lon(rad), Y = R*asinh(tan lat), R = 6378137, tolerance 1e-6 m; round trip tolerance 2e-10 degrees"},
		Phases: func(tier string) []engine.Phase {
			lons := []float64{-180, -179.9999999999, -90.5, -1e-9, 0, 1e-9, 45.123456789, 139.7, 179.9999999999, 180}
			lats := []float64{-ref.LatLimit, -85.05, -60.25, -1e-9, 0, 1e-9, 35.6, 66.5, 85.05, ref.LatLimit}
			alts := []float64{0, -1e-300, 12.345, -33554432, 33554431.999, 1e300}
			// digit-rich coordinates (more than 10 significant decimals, one to three integer digits): rounding or
			// truncating the result to a fixed number of digits shows here and not on round numbers
			for k := 1; k <= 12; k++ {
				lons = append(lons, -180+float64(k)*27.692307692307693+1.23456789012e-4)
				lats = append(lats, -85+float64(k)*13.076923076923077+7.7654321098e-5)
			}
			lons = append(lons, 139.7530980004, -122.4194155006, 100.0000000003, -9.9999999997)
			if tier != "thorough" {
				// a coarse sweep on top of the edges: every 15 degrees of longitude and 10 of latitude, one ulp either side
				for v := -165.0; v < 180; v += 15 {
					lons = append(lons, v, math.Nextafter(v, 1000), math.Nextafter(v, -1000))
				}
				for v := -80.0; v <= 80; v += 10 {
					lats = append(lats, v, math.Nextafter(v, 1000), math.Nextafter(v, -1000))
				}
			}
			if tier == "thorough" {
				// a dense sweep on top of the edges: every 2.5 degrees of longitude and 1.25 degrees of latitude, each
				// also one ulp either side, the neighbourhoods of the limits in steps of 1e-10 degrees, and more altitudes
				for v := -177.5; v < 180; v += 2.5 {
					lons = append(lons, v, math.Nextafter(v, 1000), math.Nextafter(v, -1000))
				}
				for v := -85.0; v <= 85; v += 1.25 {
					lats = append(lats, v, math.Nextafter(v, 1000), math.Nextafter(v, -1000))
				}
				for k := 1; k <= 8; k++ {
					e := float64(k) * 1e-10
					lons = append(lons, 180-e, -180+e)
					lats = append(lats, ref.LatLimit-e, -ref.LatLimit+e)
				}
				alts = append(alts, 1e-300, 5e-324, -0.5, 1, 8848.86, -10994, 1e6, -1e6)
			}
			return []engine.Phase{
				longProjectionListPhase(tier),
				{Name: "mercator-3857", ShardDepth: 2, Bounds: engine.Bounds{InputDev: -1},
					Rule: "full product lon x lat x alt alphabets (10 x 10 x 6 edge values and 16 x 12 digit-rich coordinates with more than 10 significant decimals; quick adds a 15 x 10 degree sweep with one-ulp neighbours; thorough adds a 2.5 x 1.25 degree sweep with one-ulp neighbours, the limits in steps of 1e-10 degrees and 8 more altitudes): forward = closed-form spherical Mercator to 1e-6 m, altitude bit-for-bit, back-conversion within 2e-10 degrees (lon mod 360); a failure is classified [only-with-nonzero-altitude] when the same point with altitude 0 passes; non-trivial = distinct points on a domain edge",
					Body: func(c *engine.Ctx) {
						lon := lons[c.In("lon", len(lons))]
						lat := lats[c.In("lat", len(lats))]
						alt := alts[c.In("alt", len(alts))]
						if _, err := object.NewPoint(lon, lat, alt); err != nil {
							c.Skip("point-rejected")
						}
						c.Observe("%v %v %v", lon, lat, alt)
						if math.Abs(lon) == 180 || math.Abs(lat) == ref.LatLimit {
							c.Nontrivial(fmt.Sprint(lon, lat))
						}
						fails, d := mercatorVerdict(lon, lat, alt)
						c.Outcome(fmt.Sprint(len(fails), alt))
						if len(fails) == 0 {
							return
						}
						cls := ""
						if alt != 0 {
							if f0, _ := mercatorVerdict(lon, lat, 0); len(f0) == 0 {
								cls = "[only-with-nonzero-altitude]"
							}
						}
						for _, f := range fails {
							c.Violation(f+cls, d)
						}
					}},
				{Name: "lists", Serial: true, Bounds: engine.Bounds{InputDev: -1},
					Rule: "lists of length 0..3 from 6 points with repeats (three of them share one position and differ only in altitude), EPSG:3857: output i corresponds to input i in both directions (length and order); non-trivial = distinct lists of length >= 2",
					Body: func(c *engine.Ctx) {
						pts := [][3]float64{{139.7, 35.6, 10}, {-0.1, 51.5, -3}, {179, -84, 0}, {-179, 84, 25.5}, {139.7, 35.6, 50}, {139.7, 35.6, 0}}
						n := c.In("len", 4)
						var list []*object.Point
						var idx []int
						for i := 0; i < n; i++ {
							k := c.In("pt", len(pts))
							idx = append(idx, k)
							p, _ := object.NewPoint(pts[k][0], pts[k][1], pts[k][2])
							list = append(list, p)
						}
						pr, err := shape.ConvertPointListToProjectedPointList(list, 3857)
						d := map[string]any{"points": idx}
						c.Observe("%v -> %d %v", idx, len(pr), err)
						if n >= 2 {
							c.Nontrivial(fmt.Sprint(idx))
						}
						if err != nil || len(pr) != n {
							c.Violation("C18:ConvertPointListToProjectedPointList:length-not-preserved", d)
							return
						}
						for i, k := range idx {
							one, _ := shape.ConvertPointListToProjectedPointList(list[i:i+1], 3857)
							if *one[0] != *pr[i] || pr[i].Alt != pts[k][2] {
								c.Violation("C18:ConvertPointListToProjectedPointList:order-not-preserved", d)
							}
						}
						back, err := shape.ConvertProjectedPointListToPointList(pr, 3857)
						if err != nil || len(back) != n {
							c.Violation("C18:ConvertProjectedPointListToPointList:length-not-preserved", d)
							return
						}
						for i, k := range idx {
							if lonDiff(back[i].Lon(), pts[k][0]) > 2e-10 || math.Abs(back[i].Lat()-pts[k][1]) > 2e-10 || back[i].Alt() != pts[k][2] {
								c.Violation("C18:ConvertProjectedPointListToPointList:order-not-preserved", d)
							}
						}
					}},
				{Name: "all-epsg-codes", ShardDepth: 1, Bounds: engine.Bounds{InputDev: -1},
					Rule: "every code of the bundled EPSG table x a point inside its area (first of 12 candidates it covers) in a 2-element list with distinct altitudes: length, order and bit-for-bit altitude in both directions; unknown codes {0,-1,99999,3858} are a conversion error in both directions; non-trivial = distinct codes with a covered candidate point",
					Body: func(c *engine.Ctx) {
						codes := wgs84.EPSG().Codes()
						unknown := []int{0, -1, 99999, 3858}
						k := c.In("code", len(codes)+len(unknown))
						p1, _ := object.NewPoint(139.7, 35.6, 7.25)
						if k >= len(codes) {
							code := unknown[k-len(codes)]
							for _, x := range codes {
								if x == code {
									c.Skip("code-exists")
								}
							}
							// a valid call first, then the unknown code three times in a row in each direction: every one
							// of them must be a conversion error (state carried between calls must not turn it into a success)
							shape.ConvertPointListToProjectedPointList([]*object.Point{p1}, 3857)
							shape.ConvertProjectedPointListToPointList([]*object.ProjectedPoint{{X: 1, Y: 2, Alt: 3}}, 3857)
							c.Nontrivial(fmt.Sprint("unknown", code))
							for rep := 0; rep < 3; rep++ {
								r1, e1 := shape.ConvertPointListToProjectedPointList([]*object.Point{p1}, code)
								r2, e2 := shape.ConvertProjectedPointListToPointList([]*object.ProjectedPoint{{X: 1, Y: 2, Alt: 3}}, code)
								c.Observe("unknown %d #%d %v %v", code, rep, e1, e2)
								if e1 == nil || e2 == nil || len(r1) != 0 || len(r2) != 0 {
									c.Violation("C18:unknown-epsg-code-accepted", map[string]any{"code": code, "repetition": rep, "forward_err": fmt.Sprint(e1), "inverse_err": fmt.Sprint(e2)})
									break
								}
							}
							return
						}
						code := codes[k]
						cands := [][2]float64{{139.7, 35.6}, {10, 50}, {-100, 40}, {0, 0}, {-60, -30}, {25, -30}, {135, -25}, {2, 47}, {-3, 55}, {100, 15}, {-150, 65}, {15, 78}}
						var pt *[2]float64
						for i := range cands {
							for _, cc := range wgs84.EPSG().CodesCover(cands[i][0], cands[i][1]) {
								if cc == code {
									pt = &cands[i]
								}
							}
							if pt != nil {
								break
							}
						}
						if pt == nil {
							// scan a 1-degree grid (centres at .5) for a point inside the CRS's area of use
							crs := wgs84.EPSG().Code(code)
						scan:
							for la := -79.5; la < 84; la++ {
								for lo := -179.5; lo < 180; lo++ {
									if crs.Contains(lo, la) && crs.Contains(lo+0.01, la-0.01) {
										pt = &[2]float64{lo, la}
										break scan
									}
								}
							}
						}
						if pt == nil {
							c.Skip("no-candidate-point-inside-area")
						}
						a, _ := object.NewPoint(pt[0], pt[1], 7.25)
						b, _ := object.NewPoint(pt[0]+0.01, pt[1]-0.01, -1234.5)
						a2, _ := object.NewPoint(pt[0], pt[1], 99.5) // same position as a, other altitude, adjacent in the list
						pr, err := shape.ConvertPointListToProjectedPointList([]*object.Point{a, a2, b}, code)
						if err == nil && (len(pr) != 3 || math.Float64bits(pr[1].Alt) != math.Float64bits(99.5) || math.Float64bits(pr[0].Alt) != math.Float64bits(7.25)) {
							c.Violation("C18:ConvertPointListToProjectedPointList:length-order-or-altitude-broken", map[string]any{"code": code, "point": *pt, "case": "two adjacent entries at one position with different altitudes"})
						}
						if err == nil {
							pr = []*object.ProjectedPoint{pr[0], pr[2]}
						}
						d := map[string]any{"code": code, "point": *pt}
						c.Observe("%d %v %v", code, len(pr), err)
						if err != nil {
							// a failure is legitimate only if the CRS library itself refuses these points
							geo, pro := wgs84.EPSG().Code(4326), wgs84.EPSG().Code(code)
							_, _, _, e1 := wgs84.SafeTransform(geo, pro)(a.Lon(), a.Lat(), a.Alt())
							_, _, _, e2 := wgs84.SafeTransform(geo, pro)(b.Lon(), b.Lat(), b.Alt())
							if e1 == nil && e2 == nil {
								d["err"] = err.Error()
								c.Violation("C18:ConvertPointListToProjectedPointList:error-for-supported-crs-and-covered-point", d)
							}
							c.Count("forward_conversion_error")
							return
						}
						c.Nontrivial(fmt.Sprint(code))
						c.Outcome(fmt.Sprint(code))
						if len(pr) != 2 || math.Float64bits(pr[0].Alt) != math.Float64bits(7.25) || math.Float64bits(pr[1].Alt) != math.Float64bits(-1234.5) {
							c.Violation("C18:ConvertPointListToProjectedPointList:length-order-or-altitude-broken", d)
							return
						}
						back, err := shape.ConvertProjectedPointListToPointList(pr, code)
						if err != nil {
							geo, pro := wgs84.EPSG().Code(4326), wgs84.EPSG().Code(code)
							_, _, _, e1 := wgs84.SafeTransform(pro, geo)(pr[0].X, pr[0].Y, pr[0].Alt)
							_, _, _, e2 := wgs84.SafeTransform(pro, geo)(pr[1].X, pr[1].Y, pr[1].Alt)
							if e1 == nil && e2 == nil {
								d["err"] = err.Error()
								c.Violation("C18:ConvertProjectedPointListToPointList:error-for-supported-crs-and-covered-point", d)
							}
							c.Count("backward_conversion_error")
							return
						}
						if len(back) != 2 || math.Float64bits(back[0].Alt()) != math.Float64bits(7.25) || math.Float64bits(back[1].Alt()) != math.Float64bits(-1234.5) {
							c.Violation("C18:ConvertProjectedPointListToPointList:length-order-or-altitude-broken", d)
						}
						if lonDiff(back[0].Lon(), a.Lon()) > 1e-6 || math.Abs(back[0].Lat()-a.Lat()) > 1e-6 || lonDiff(back[1].Lon(), b.Lon()) > 1e-6 {
							c.Count("roundtrip_beyond_1e-6_deg_non3857")
						}
					}},
			}
		},
	})
}

// mercatorVerdict applies the numeric C18 oracle to one point and returns the failed clauses.
func mercatorVerdict(lon, lat, alt float64) (fails []string, d map[string]any) {
	p, _ := object.NewPoint(lon, lat, alt)
	d = map[string]any{"lon": lon, "lat": lat, "alt": alt}
	pr, err := shape.ConvertPointListToProjectedPointList([]*object.Point{p}, 3857)
	if err != nil || len(pr) != 1 {
		d["err"] = fmt.Sprint(err)
		return []string{"C18:ConvertPointListToProjectedPointList:error-on-valid-point"}, d
	}
	wx := mercR * p.Lon() * math.Pi / 180
	wy := mercR * math.Asinh(math.Tan(p.Lat()*math.Pi/180))
	d["got"] = fmt.Sprint(*pr[0])
	d["want_x"], d["want_y"] = wx, wy
	if math.Abs(pr[0].X-wx) > 1e-6 || math.Abs(pr[0].Y-wy) > 1e-6 {
		fails = append(fails, "C18:ConvertPointListToProjectedPointList:not-spherical-mercator")
	}
	if math.Float64bits(pr[0].Alt) != math.Float64bits(alt) {
		fails = append(fails, "C18:ConvertPointListToProjectedPointList:altitude-not-carried-bit-for-bit")
	}
	back, err := shape.ConvertProjectedPointListToPointList(pr, 3857)
	if err != nil || len(back) != 1 {
		d["err"] = fmt.Sprint(err)
		return append(fails, "C18:ConvertProjectedPointListToPointList:error-on-valid-point"), d
	}
	d["back"] = fmt.Sprint(*back[0])
	if lonDiff(back[0].Lon(), p.Lon()) > 2e-10 || math.Abs(back[0].Lat()-p.Lat()) > 2e-10 {
		fails = append(fails, "C18:roundtrip:not-within-2e-10-degrees")
	}
	if math.Float64bits(back[0].Alt()) != math.Float64bits(alt) {
		fails = append(fails, "C18:ConvertProjectedPointListToPointList:altitude-not-carried-bit-for-bit")
	}
	return fails, d
}
