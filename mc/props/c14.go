package props

import (
	"fmt"
	"math"

	"github.com/trajectoryjp/spatial_id_go/v4/common/object"
	"github.com/trajectoryjp/spatial_id_go/v4/shape"
	"github.com/trajectoryjp/spatial_id_go/v4/transform"

	"verif/mc/engine"
	"verif/mc/ref"
)

func init() {
	engine.Register(&engine.Check{
		ID:        "C14",
		Title:     "The corridor around a line contains the line and stays within its search box",
		Technique: "stateless exploration (E1) of segments x radii x skip flag with the runtime's map-iteration start owned as an environment choice (<= 1 deviation over 16 starts per point in quick; thorough: <= 1 deviation over 64 starts on the wide alphabets plus <= 2 deviations over 8 starts on the quick alphabets); relational oracle against the library's own line, layer-fit and N-layer functions plus an independent ECEF segment-to-footprint distance",
		Assumptions: []string{
			"segments limited to <= 12 line voxels, radii to <= 2.5 local voxel widths and to values for which the layer fit terminates (fewer layers than half the grid)",
			"the independent distance uses the planar quadrilateral through the four footprint corners at altitude 0 and allows radius*1.01 + 100 m",
			"map-order exploration enumerates start bucket x offset under a fixed hash seed",
		},
		Phases: func(tier string) []engine.Phase {
			var hs []int64
			dev := 1 // the wide phase; thorough adds a second phase with two deviations
			mults := []float64{0, 0.3, 1.5}
			offs := [][3]float64{{0, 0, 0}, {1, 0, 0}, {0, 0, 1}, {-2.5, 2.5, 1}, {0, 4, -1}, {math.Inf(1), 0, 0}}
			mapCap := 16
			hs = []int64{2, 3, 4, 5, 18, 35}
			qhs, qmults, qoffs := hs, mults, offs
			if tier == "thorough" {
				mults = []float64{0, 0.3, 1, 1.5, 2.5}
				offs = [][3]float64{{0, 0, 0}, {1, 0, 0}, {0, 1, 0}, {0, 0, 1}, {2.5, -1, 0}, {-2.5, 2.5, 1}, {0, 4, -1}, {3, 3, 2.5}, {math.Inf(1), 0, 0}}
				mapCap = 64
				hs = []int64{2, 3, 4, 5, 6, 10, 18, 25, 31, 35}
			}
			corridorPhase := func(name, note string, dev, mapCap int, hs []int64, mults []float64, offs [][3]float64) engine.Phase {
				return engine.Phase{Name: name, ShardDepth: 3, Bounds: engine.Bounds{EnvDev: dev, InputDev: -1},
					Rule: note + "full product h x v in {h, h-1, 0} x base voxel (mid-grid north, equator, far south) x end offset (9 shapes, <= 12 line voxels; one of them runs from the first to the last column of a grid of <= 8 columns, so that the search box wraps onto itself) x radius in {0,0.3,1,1.5,2.5} local voxel widths x skip flag, each under all map-iteration executions within the deviation bound; oracle: duplicate-free, requested zooms, superset of the line IDs, radius 0 => exactly the line IDs, every added ID inside the N-layer box of the line for the maximal fitted layers, measured subset of skipped, no added voxel farther than the radius (independent ECEF distance), identical set across executions; non-trivial = distinct (segment, radius, flag) whose result has more IDs than the line",
					Body: func(c *engine.Ctx) {
						h := hs[c.In("h", len(hs))]
						vsel := c.In("v", 3)
						v := []int64{h, h - 1, 0}[vsel]
						n := int64(1) << uint(h)
						type bv struct{ x, y, f int64 }
						bases := []bv{{n / 2, n / 4, 0}, {1, n / 2, -1}, {n - 2, n - n/8 - 1, 0}}
						b := bases[c.In("base", len(bases))]
						off := offs[c.In("offset", len(offs))]
						mult := mults[c.In("radius", len(mults))]
						skip := c.In("skip", 2) == 1
						if math.Floor(mult)+3 > float64(n-1) {
							c.Skip("layer-fit-would-not-terminate-on-this-grid")
						}
						X0, Y0, F0 := float64(b.x)+0.5, float64(b.y)+0.5, float64(b.f)+0.5
						if math.IsInf(off[0], 1) {
							// the line runs from the first to the last column of the grid: line plus search box cover
							// every column, so shifted positions of different line voxels wrap onto each other
							if h > 3 {
								c.Skip("full-width-line-only-on-small-grids")
							}
							X0 = 0.5
							off = [3]float64{float64(n - 1), 0.25, 0}
						}
						lon0, lat0, alt0, ok0 := gridToGeo(X0, Y0, F0, h, v)
						lon1, lat1, alt1, ok1 := gridToGeo(X0+off[0], Y0+off[1], F0+off[2], h, v)
						if !ok0 || !ok1 {
							c.Skip("outside-domain")
						}
						s, e1 := object.NewPoint(lon0, lat0, alt0)
						e, e2 := object.NewPoint(lon1, lat1, alt1)
						if e1 != nil || e2 != nil {
							c.Skip("point-rejected")
						}
						width := 4.0075016686e7 * math.Cos(lat0*math.Pi/180) / float64(n)
						radius := mult * width
						judgeCorridor(c, s, e, radius, h, v, skip, mapCap, "")
					}}
			}

			phases := []engine.Phase{corridorPhase("corridor", "", dev, mapCap, hs, mults, offs)}
			if tier == "thorough" {
				// two deviations do not finish on the wide alphabet: they get the quick alphabet and 8 iteration starts per map point
				phases = append(phases, corridorPhase("corridor-two-deviations", "(<= 2 map-iteration deviations, 8 starts per point, quick alphabets) ", 2, 8, qhs, qmults, qoffs))
			}
			return append(phases, []engine.Phase{
				{Name: "same-radius-sequences", Serial: true, Bounds: engine.Bounds{EnvDev: 0, InputDev: -1},
					Rule: "sequences of three corridor queries in ONE execution with bit-identical (hZoom, vZoom, radius) at different latitudes (75N, equator, 60S and permutations; the voxel width differs by up to 4x) x h in {5,10,18,22} x 2 radii x skip flag: each query of the sequence must satisfy the full oracle (in particular stay inside the box fitted for ITS line), so state carried from one query to the next shows; non-trivial = distinct sequences",
					Body: func(c *engine.Ctx) {
						h := []int64{5, 10, 18, 22}[c.In("h", 4)]
						v := h
						n := int64(1) << uint(h)
						radius := []float64{0.35, 0.7}[c.In("radius", 2)] * 4.0075016686e7 / float64(n)
						skip := c.In("skip", 2) == 1
						lats := [][]float64{{75, 0, -60}, {-60, 0, 75}, {0, 75, 0}, {75, -60, 40}}[c.In("order", 4)]
						c.Nontrivial(fmt.Sprint(h, radius, skip, lats))
						for _, la := range lats {
							s, e1 := object.NewPoint(100.001, la, 10)
							e, e2 := object.NewPoint(100.001+360/float64(n)*1.2, la, 10)
							if e1 != nil || e2 != nil {
								c.Skip("point-rejected")
							}
							judgeCorridor(c, s, e, radius, h, v, skip, 16, "sequence")
						}
					}},
				{Name: "argument-errors", Serial: true, Bounds: engine.Bounds{InputDev: -1},
					Rule: "negative radius x invalid zooms x skip flag: error required; non-trivial = distinct invalid argument tuples",
					Body: func(c *engine.Ctx) {
						s, _ := object.NewPoint(139.7, 35.6, 10)
						e, _ := object.NewPoint(139.7001, 35.6001, 20)
						rs := []float64{-1, -1e-12, 5}
						zsel := [][2]int64{{20, 20}, {-1, 20}, {20, 36}, {36, -1}}
						r := rs[c.In("radius", 3)]
						z := zsel[c.In("zooms", 4)]
						skip := c.In("skip", 2) == 1
						if r >= 0 && z[0] == 20 && z[1] == 20 {
							c.Skip("valid")
						}
						_, err := transform.GetExtendedSpatialIdsWithinRadiusOfLine(s, e, r, z[0], z[1], skip)
						c.Observe("%v %v %v %v", r, z, skip, err)
						c.Nontrivial(fmt.Sprint(r, z, skip))
						if err == nil {
							c.Violation("C14:corridor:no-error-for-invalid-argument", map[string]any{"radius": r, "zooms": z, "skip": skip})
						}
					}},
			}...)
		},
	})
}

type corridorBox struct {
	H, V int64
	set  map[string]bool
}

var (
	boxMemo  = map[string]corridorBox{}
	skipMemo = map[string]map[string]bool{}
)

// judgeCorridor applies the C14 oracle to one corridor query; tag distinguishes phases in signatures' details.
func judgeCorridor(c *engine.Ctx, s, e *object.Point, radius float64, h, v int64, skip bool, mapCap int, tag string) {
	n := int64(1) << uint(h)
	engine.SetHashSeed(0x5eed0001)
	c.SetMapStartCap(mapCap)
	line, err := shape.GetExtendedSpatialIdsOnLine(s, e, h, v)
	if err != nil {
		c.Skip("line-error")
	}
	if len(line) > 12 {
		c.Skip("more-than-12-line-voxels")
	}
	// the layer fit only terminates if some shift along the row takes the voxel farther away than
	// the radius: skip radii above 80% of the largest chord any line voxel can reach on its parallel
	for _, l := range line {
		vx := ref.MustExt(l)
		latEdge := math.Max(math.Abs(ref.RowBoundaryLat(vx.Y, h)), math.Abs(ref.RowBoundaryLat(vx.Y+1, h)))
		p0 := ref.ECEF(0, latEdge, 0)
		rPar := math.Hypot(p0[0], p0[1])
		gap := float64(n/2-1) / float64(n) * 2 * math.Pi
		if radius > 0.8*2*rPar*math.Sin(gap/2) {
			c.Skip("layer-fit-would-not-terminate-on-this-grid")
		}
	}
	call := fmt.Sprintf("transform.GetExtendedSpatialIdsWithinRadiusOfLine(NewPoint(%v,%v,%v), NewPoint(%v,%v,%v), %v, %d, %d, %v)", s.Lon(), s.Lat(), s.Alt(), e.Lon(), e.Lat(), e.Alt(), radius, h, v, skip)
	refRes, refErr := transform.GetExtendedSpatialIdsWithinRadiusOfLine(s, e, radius, h, v, skip)
	c.EnvMaps(true)
	got, err := transform.GetExtendedSpatialIdsWithinRadiusOfLine(s, e, radius, h, v, skip)
	c.EnvMaps(false)
	c.Observe("%s -> %d %v", call, len(got), err)
	c.CountN("map_points_met", int64(c.MapPointsSeen()))
	d := map[string]any{"call": call, "line": line, "got_n": len(got)}
	if err != nil || refErr != nil {
		d["err"] = fmt.Sprint(err, refErr)
		c.Violation("C14:corridor:error-on-valid-input", d)
		return
	}
	if len(got) > len(line) {
		c.Nontrivial(call)
	}
	c.Outcome(fmt.Sprint(call, len(got)))
	if c.WantSample() && len(got) > len(line) {
		c.Sample(map[string]any{"call": call, "line_ids": len(line), "result_ids": len(got)})
	}
	if canonStrings(got) != canonStrings(refRes) {
		d["default_order_n"] = len(refRes)
		c.Violation("C14:corridor:result-set-differs-between-executions", d)
	}
	if dp := dupOf(got); dp != "" {
		d["dup"] = dp
		c.Violation("C14:corridor:duplicate-in-result", d)
	}
	set := map[string]bool{}
	for _, g := range got {
		set[g] = true
		vx, ok := ref.ParseExt(g)
		if !ok || vx.H != h || vx.V != v {
			d["bad"] = g
			c.Violation("C14:corridor:id-not-at-requested-zooms", d)
			return
		}
	}
	lineSet := map[string]bool{}
	for _, l := range line {
		lineSet[l] = true
		if !set[l] {
			d["missing"] = l
			c.Violation("C14:corridor:line-id-missing", d)
		}
	}
	if radius == 0 && len(set) != len(lineSet) {
		c.Violation("C14:corridor:radius-0-result-is-not-exactly-the-line", d)
	}
	// search box: maximal fitted layers over the line voxels (memoised per input: it does
	// not depend on the environment choices of this execution)
	mk := fmt.Sprint(line, radius)
	bx, ok := boxMemo[mk]
	if !ok {
		for _, l := range line {
			hl, vl, err := transform.FitClearanceAroundExtendedSpatialID(l, radius)
			if err != nil {
				c.Violation("C14:FitClearanceAroundExtendedSpatialID:error-on-valid-input", d)
				return
			}
			if hl > bx.H {
				bx.H = hl
			}
			if vl > bx.V {
				bx.V = vl
			}
		}
		// the box is computed with the reference shift (ref.Vox.Shift), not with the library's own
		// N-layer function, so that a defect in that function cannot hide itself
		bx.set = map[string]bool{}
		for _, l := range line {
			lv := ref.MustExt(l)
			for dx := -bx.H; dx <= bx.H; dx++ {
				for dy := -bx.H; dy <= bx.H; dy++ {
					for dv := -bx.V; dv <= bx.V; dv++ {
						bx.set[lv.Shift(dx, dy, dv).Ext()] = true
					}
				}
			}
		}
		if len(boxMemo) > 64 {
			boxMemo = map[string]corridorBox{}
		}
		boxMemo[mk] = bx
	}
	H, V, boxSet := bx.H, bx.V, bx.set
	for g := range set {
		if !lineSet[g] && !boxSet[g] {
			d["outside"], d["H"], d["V"] = g, H, V
			c.Violation("C14:corridor:added-id-outside-the-fitted-layer-box", d)
			break
		}
	}
	if !skip {
		sks, ok := skipMemo[call]
		var err error
		if !ok {
			var sk []string
			sk, err = transform.GetExtendedSpatialIdsWithinRadiusOfLine(s, e, radius, h, v, true)
			sks = map[string]bool{}
			for _, x := range sk {
				sks[x] = true
			}
			if len(skipMemo) > 64 {
				skipMemo = map[string]map[string]bool{}
			}
			if err == nil {
				skipMemo[call] = sks
			}
		}
		if err == nil {
			for g := range set {
				if !sks[g] {
					d["not_in_skipped"] = g
					c.Violation("C14:corridor:measured-result-not-a-subset-of-skipped-result", d)
					break
				}
			}
		}
		// independent distance
		p, q := ref.ECEF(s.Lon(), s.Lat(), 0), ref.ECEF(e.Lon(), e.Lat(), 0)
		for g := range set {
			if lineSet[g] {
				continue
			}
			vx := ref.MustExt(g)
			W, E := ref.LonBoundary(vx.X, h), ref.LonBoundary(vx.X+1, h)
			N, S := ref.RowBoundaryLat(vx.Y, h), ref.RowBoundaryLat(vx.Y+1, h)
			dist := ref.SegQuadDist(p, q, ref.ECEF(W, N, 0), ref.ECEF(E, N, 0), ref.ECEF(E, S, 0), ref.ECEF(W, S, 0))
			if dist > radius*1.01+100 {
				d["far"], d["distance_m"], d["radius_m"] = g, dist, radius
				c.Violation("C14:corridor:added-voxel-farther-than-radius", d)
				break
			}
		}
	}
}
