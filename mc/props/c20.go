package props

import (
	"fmt"
	"math"
	"math/big"

	"github.com/trajectoryjp/spatial_id_go/v4/common"
	"github.com/trajectoryjp/spatial_id_go/v4/common/spatial"

	"verif/mc/engine"
)

// slicesOver enumerates all slices over {0..k-1} of length <= maxLen.
func slicesOver(k, maxLen int) [][]int {
	r := [][]int{{}}
	prev := [][]int{{}}
	for l := 1; l <= maxLen; l++ {
		var cur [][]int
		for _, p := range prev {
			for v := 0; v < k; v++ {
				cur = append(cur, append(append([]int(nil), p...), v))
			}
		}
		r = append(r, cur...)
		prev = cur
	}
	return r
}

func setOf(a []int) map[int]bool {
	m := map[int]bool{}
	for _, v := range a {
		m[v] = true
	}
	return m
}

func sameSet(a []int, m map[int]bool) bool {
	s := setOf(a)
	if len(s) != len(m) {
		return false
	}
	for k := range s {
		if !m[k] {
			return false
		}
	}
	return true
}

func hasDup(a []int) bool { return len(setOf(a)) != len(a) }

var vecComps = []float64{0, 1, -1, 2, -2, 0.5, 1e-3, 1e3}

func relClose(a, b, tol float64) bool {
	d := math.Abs(a - b)
	return d <= tol*(1+math.Max(math.Abs(a), math.Abs(b)))
}

func init() {
	engine.Register(&engine.Check{
		ID:          "C20",
		Title:       "The exported helper algebra obeys its mathematical laws",
		Technique:   "exhaustive choice-tree enumeration (E1): all slices over a 3-letter alphabet up to length 5 (thorough: 6) (and all pairs), all (index, shift) in a dense window plus boundary classes, all 0<=k<=n<=12 (thorough: 16), vector/matrix component alphabets; against map/set, big-integer and direct-formula references",
		Assumptions: []string{"slices longer than 5 (thorough: 6) / alphabets larger than 3 letters, and vector components outside the 8-value alphabet, are not covered", "references: Go maps, math/big, direct formulas with stated relative tolerances"},
		Phases: func(tier string) []engine.Phase {
			maxLen := 5
			thorough := tier == "thorough"
			mmLen, idxWin, combN, zc := 4, int64(64), 13, []float64{0, 1, -2}
			if thorough {
				maxLen = 6
				mmLen, idxWin, combN, zc = 6, 2048, 17, vecComps
			}
			sl := slicesOver(3, maxLen)
			strs := []string{"a", "b", ""}
			return []engine.Phase{
				{Name: "set-helpers", Serial: !thorough, ShardDepth: 1, Bounds: engine.Bounds{InputDev: -1},
					Rule: "all ordered pairs of slices over {0,1,2} up to the length bound (ints, and the same shapes over strings {a,b,\"\"}): Union/Intersect/Difference/Unique/Include as set operations, inputs unmodified including the spare capacity behind them (the arguments are windows into larger arrays holding sentinels); non-trivial = distinct pairs where both slices have a repeated element",
					Body: func(c *engine.Ctx) {
						a := sl[c.In("a", len(sl))]
						b := sl[c.In("b", len(sl))]
						a0 := append([]int(nil), a...)
						b0 := append([]int(nil), b...)
						// the arguments are windows into larger arrays that the caller still uses: the memory behind
						// len (spare capacity) holds sentinels that no helper may touch
						const sentinel = -7777
						mk := func(x []int, spare int) ([]int, []int) {
							full := make([]int, len(x)+spare)
							copy(full, x)
							for i := len(x); i < len(full); i++ {
								full[i] = sentinel
							}
							return full[:len(x)], full
						}
						var fullA, fullB []int
						a, fullA = mk(a, len(b)+2)
						b, fullB = mk(b, len(a)+2)
						tailIntact := func(full []int, n int) bool {
							for i := n; i < len(full); i++ {
								if full[i] != sentinel {
									return false
								}
							}
							return true
						}
						sa, sb := setOf(a), setOf(b)
						u := common.Union(a, b)
						in := common.Intersect(a, b)
						df := common.Difference(a, b)
						uq := common.Unique(a)
						c.Observe("%v %v -> %v %v %v %v", a, b, u, in, df, uq)
						if hasDup(a) && hasDup(b) {
							c.Nontrivial(fmt.Sprint(a, b))
						}
						c.Outcome(fmt.Sprint(len(u), len(in), len(df), len(uq)))
						d := map[string]any{"a": a, "b": b, "union": u, "intersect": in, "difference": df, "unique": uq}
						wu := map[int]bool{}
						wi := map[int]bool{}
						wd := map[int]bool{}
						for k := range sa {
							wu[k] = true
							if sb[k] {
								wi[k] = true
							} else {
								wd[k] = true
							}
						}
						for k := range sb {
							wu[k] = true
						}
						if !sameSet(u, wu) || hasDup(u) {
							c.Violation("C20:Union:not-the-set-union", d)
						}
						if !sameSet(in, wi) {
							c.Violation("C20:Intersect:not-the-set-intersection", d)
						}
						if !sameSet(df, wd) {
							c.Violation("C20:Difference:not-the-set-difference", d)
						}
						if !sameSet(uq, sa) || hasDup(uq) {
							c.Violation("C20:Unique:not-the-distinct-elements", d)
						}
						for v := 0; v < 4; v++ {
							if common.Include(a, v) != sa[v] {
								c.Violation("C20:Include:wrong-membership", d)
							}
						}
						if fmt.Sprint(a) != fmt.Sprint(a0) || fmt.Sprint(b) != fmt.Sprint(b0) {
							c.Violation("C20:set-helpers:input-slice-modified", d)
						}
						if !tailIntact(fullA, len(a)) || !tailIntact(fullB, len(b)) {
							d["backing_a"], d["backing_b"] = fullA, fullB
							c.Violation("C20:set-helpers:memory-behind-the-argument-slice-written", d)
						}
						// same shapes over strings
						as := make([]string, len(a))
						for i, v := range a {
							as[i] = strs[v]
						}
						bs := make([]string, len(b))
						for i, v := range b {
							bs[i] = strs[v]
						}
						us := common.Union(as, bs)
						is := common.Intersect(as, bs)
						ds := common.Difference(as, bs)
						qs := common.Unique(as)
						if len(setS(us)) != len(wu) || len(us) != len(wu) || len(setS(is)) != len(wi) || len(setS(ds)) != len(wd) || len(qs) != len(sa) {
							c.Violation("C20:set-helpers:string-instantiation-differs", d)
						}
					}},
				{Name: "max-min", Serial: !thorough, ShardDepth: 1, Bounds: engine.Bounds{InputDev: -1},
					Rule: "all slices over {-1,0,1,2} up to length 4 (thorough: 6) (ints and floats) and the empty slice: Max/Min return an element bounding all others, error on empty; non-trivial = distinct slices of length >= 2",
					Body: func(c *engine.Ctx) {
						s4 := slicesOver(4, mmLen)
						s := s4[c.In("s", len(s4))]
						xs := make([]int, len(s))
						fs := make([]float64, len(s))
						for i, v := range s {
							xs[i] = v - 1
							fs[i] = float64(v-1) / 2
						}
						// the same shapes over the extreme values of each numeric type
						i64 := []int64{math.MinInt64, -1, 5, math.MaxInt64}
						i32 := []int32{math.MinInt32, -1, 5, math.MaxInt32}
						ii := []int{math.MinInt, -1, 5, math.MaxInt}
						f64 := []float64{-math.MaxFloat64, -1.5, 5e-324, math.MaxFloat64}
						a64 := make([]int64, len(s))
						a32 := make([]int32, len(s))
						ai := make([]int, len(s))
						af := make([]float64, len(s))
						for i, v := range s {
							a64[i], a32[i], ai[i], af[i] = i64[v], i32[v], ii[v], f64[v]
						}
						if len(s) > 0 {
							chk := func(name string, bad bool) {
								if bad {
									c.Violation("C20:Max/Min:does-not-bound-all-elements[type-extremes]", map[string]any{"type": name, "indices": s})
								}
							}
							M64, _ := common.Max(a64)
							m64, _ := common.Min(a64)
							M32, _ := common.Max(a32)
							m32, _ := common.Min(a32)
							Mi, _ := common.Max(ai)
							mi, _ := common.Min(ai)
							Mf, _ := common.Max(af)
							mf, _ := common.Min(af)
							for i := range s {
								chk("int64", a64[i] > M64 || a64[i] < m64)
								chk("int32", a32[i] > M32 || a32[i] < m32)
								chk("int", ai[i] > Mi || ai[i] < mi)
								chk("float64", af[i] > Mf || af[i] < mf)
							}
						}
						mx, e1 := common.Max(xs)
						mn, e2 := common.Min(xs)
						fx, e3 := common.Max(fs)
						fn, e4 := common.Min(fs)
						c.Observe("%v -> %v %v %v %v", xs, mx, mn, e1, e2)
						if len(s) >= 2 {
							c.Nontrivial(fmt.Sprint(xs))
						}
						c.Outcome(fmt.Sprint(mx, mn))
						d := map[string]any{"slice": xs, "max": mx, "min": mn}
						if len(s) == 0 {
							if e1 == nil || e2 == nil || e3 == nil || e4 == nil {
								c.Violation("C20:Max/Min:no-error-on-empty", d)
							}
							return
						}
						if e1 != nil || e2 != nil || e3 != nil || e4 != nil {
							c.Violation("C20:Max/Min:error-on-non-empty", d)
							return
						}
						inS, inF, inSm, inFm := false, false, false, false
						for i := range xs {
							if xs[i] > mx || xs[i] < mn || fs[i] > fx || fs[i] < fn {
								c.Violation("C20:Max/Min:does-not-bound-all-elements", d)
							}
							inS = inS || xs[i] == mx
							inSm = inSm || xs[i] == mn
							inF = inF || fs[i] == fx
							inFm = inFm || fs[i] == fn
						}
						if !inS || !inSm || !inF || !inFm {
							c.Violation("C20:Max/Min:result-not-an-element", d)
						}
					}},
				{Name: "arithmetic-shift", Serial: true, Bounds: engine.Bounds{InputDev: -1},
					Rule: "index in [-64,64] (thorough: [-2048,2048]) u {+-3,+-(2^k+-1) for k in 10,31,40,61} x shift in [-62,62] u {+-63, +-64, +-65, +-100, 127, -128, +-2^20, MaxInt64, MinInt64(+1)} without int64 overflow: CalculateArithmeticShift = floor(index*2^shift) (big.Int); non-trivial = distinct cases with negative index and negative shift",
					Body: func(c *engine.Ctx) {
						var idx []int64
						for i := -idxWin; i <= idxWin; i++ {
							idx = append(idx, i)
						}
						for _, k := range []uint{10, 31, 40, 61} {
							p := int64(1) << k
							idx = append(idx, p, -p, p+1, -(p + 1), p-1, -(p - 1))
						}
						i := idx[c.In("index", len(idx))]
						// -62..62 densely, then the shifts at and beyond the word size (a right shift by >= 64 is still floor: -1 or 0)
						wide := []int64{63, -63, 64, -64, 65, -65, 100, -100, 127, -128, 1 << 20, -(1 << 20), math.MaxInt64, math.MinInt64 + 1, math.MinInt64}
						var s int64
						if k := c.In("shift", 125+len(wide)); k < 125 {
							s = int64(k) - 62
						} else {
							s = wide[k-125]
						}
						want := new(big.Int)
						switch {
						case s >= 0 && s <= 200:
							want.Lsh(big.NewInt(i), uint(s))
						case s > 200: // index * 2^s does not fit unless the index is 0
							if i != 0 {
								c.Skip("overflows-int64")
							}
						case s >= -200:
							want.Rsh(big.NewInt(i), uint(-s))
						default: // floor(index * 2^s) for a huge negative s: -1 for negative indices, else 0
							if i < 0 {
								want.SetInt64(-1)
							}
						}
						if !want.IsInt64() {
							c.Skip("overflows-int64")
						}
						got := common.CalculateArithmeticShift(i, s)
						c.Observe("%d %d -> %d", i, s, got)
						if i < 0 && s < 0 {
							c.Nontrivial(fmt.Sprint(i, s))
						}
						c.Outcome(fmt.Sprint(got))
						if got != want.Int64() {
							c.Violation("C20:CalculateArithmeticShift:not-floor-of-scaled-index", map[string]any{"index": i, "shift": s, "got": got, "want": want.String()})
						}
					}},
				{Name: "combinations", Serial: true, Bounds: engine.Bounds{InputDev: -1},
					Rule: "all 0 <= k <= n <= 12 (thorough: 16): the visit sequence equals the lexicographic enumeration of k-subsets of 0..n-1, each once; non-trivial = distinct (n,k) with 0 < k < n",
					Body: func(c *engine.Ctx) {
						n := int64(c.In("n", combN))
						k := int64(c.In("k", combN))
						if k > n {
							c.Skip("k>n")
						}
						var got [][]int64
						common.Combinations(n, k, func(p []int64) { got = append(got, append([]int64(nil), p...)) })
						var want [][]int64
						var rec func(start int64, cur []int64)
						rec = func(start int64, cur []int64) {
							if int64(len(cur)) == k {
								want = append(want, append([]int64(nil), cur...))
								return
							}
							for v := start; v < n; v++ {
								rec(v+1, append(cur, v))
							}
						}
						rec(0, nil)
						c.Observe("%d %d -> %d", n, k, len(got))
						if k > 0 && k < n {
							c.Nontrivial(fmt.Sprint(n, k))
						}
						c.Outcome(fmt.Sprint(len(got)))
						// nested use: another enumeration is started from inside the callback (sequential, legitimate);
						// neither enumeration may disturb the other
						if n <= 6 && k >= 1 {
							var outer [][]int64
							innerOK := true
							common.Combinations(n, k, func(p []int64) {
								outer = append(outer, append([]int64(nil), p...))
								var inner [][]int64
								common.Combinations(4, 2, func(q []int64) { inner = append(inner, append([]int64(nil), q...)) })
								if fmt.Sprint(inner) != "[[0 1] [0 2] [0 3] [1 2] [1 3] [2 3]]" {
									innerOK = false
								}
								if len(outer) > 100 {
									panic("enumeration does not terminate")
								}
							})
							if fmt.Sprint(outer) != fmt.Sprint(want) || !innerOK {
								c.Violation("C20:Combinations:nested-enumeration-disturbs-the-outer-one", map[string]any{"n": n, "k": k, "outer_head": fmt.Sprint(head2(outer, 4)), "want_head": fmt.Sprint(head2(want, 4)), "inner_ok": innerOK})
							}
						}
						if fmt.Sprint(got) != fmt.Sprint(want) {
							c.Violation("C20:Combinations:not-the-lexicographic-enumeration", map[string]any{"n": n, "k": k, "got_n": len(got), "want_n": len(want), "got_head": fmt.Sprint(head2(got, 4)), "want_head": fmt.Sprint(head2(want, 4))})
						}
					}},
				{Name: "vectors-lines", Serial: !thorough, ShardDepth: 2, Bounds: engine.Bounds{InputDev: -1},
					Rule: "all pairs of 3-vectors with components in the 8-value alphabet (x,y free, z from a 3-value sub-alphabet; thorough: z free too): line parameter 0/1 = end points, Add/Sub/Scale/Dot/Cross/Norm direct formulas, rotation between the two vectors is a unit quaternion carrying the first direction onto the second (incl. exact opposites); non-trivial = distinct pairs of non-parallel non-zero vectors",
					Body: func(c *engine.Ctx) {
						a := spatial.Vector3{X: vecComps[c.In("ax", 8)], Y: vecComps[c.In("ay", 8)], Z: zc[c.In("az", len(zc))]}
						bsel := c.In("bkind", 3)
						var b spatial.Vector3
						switch bsel {
						case 0:
							b = spatial.Vector3{X: vecComps[c.In("bx", 8)], Y: vecComps[c.In("by", 8)], Z: zc[c.In("bz", len(zc))]}
						case 1:
							b = a.Scale(-1) // exact opposite
						case 2:
							b = a.Scale(-2.5)
						}
						p, q := spatial.Point3(a), spatial.Point3(b)
						l := spatial.NewLineFromPoints(p, q)
						d := map[string]any{"a": fmt.Sprint(a), "b": fmt.Sprint(b)}
						c.Observe("%v %v", a, b)
						if l.ToPoint(0) != p || l.Start() != p {
							c.Violation("C20:Line3:parameter-0-not-start", d)
						}
						e := l.ToPoint(1)
						if !relClose(e.X, q.X, 1e-12) || !relClose(e.Y, q.Y, 1e-12) || !relClose(e.Z, q.Z, 1e-12) || l.End() != e {
							c.Violation("C20:Line3:parameter-1-not-end", d)
						}
						if a.Add(b) != (spatial.Vector3{X: a.X + b.X, Y: a.Y + b.Y, Z: a.Z + b.Z}) || a.Sub(b) != (spatial.Vector3{X: a.X - b.X, Y: a.Y - b.Y, Z: a.Z - b.Z}) {
							c.Violation("C20:Vector3:add-sub-formula", d)
						}
						if !relClose(a.Dot(b), a.X*b.X+a.Y*b.Y+a.Z*b.Z, 1e-12) {
							c.Violation("C20:Vector3:dot-formula", d)
						}
						cr := a.Cross(b)
						if !relClose(cr.X, a.Y*b.Z-a.Z*b.Y, 1e-12) || !relClose(cr.Y, a.Z*b.X-a.X*b.Z, 1e-12) || !relClose(cr.Z, a.X*b.Y-a.Y*b.X, 1e-12) {
							c.Violation("C20:Vector3:cross-formula", d)
						}
						if !relClose(a.Norm(), math.Sqrt(a.X*a.X+a.Y*a.Y+a.Z*a.Z), 1e-12) || !relClose(a.L1Norm(), math.Abs(a.X)+math.Abs(a.Y)+math.Abs(a.Z), 1e-12) {
							c.Violation("C20:Vector3:norm-formula", d)
						}
						if p.DistancePoint(q) < 0 || !relClose(p.DistancePoint(q), a.Sub(b).Norm(), 1e-12) {
							c.Violation("C20:Point3:distance-formula", d)
						}
						if a.Norm() == 0 || b.Norm() == 0 {
							return
						}
						qt := spatial.RotateBetweenVector(a, b)
						nq := math.Sqrt(qt.W*qt.W + qt.X*qt.X + qt.Y*qt.Y + qt.Z*qt.Z)
						ua, ub := a.Unit(), b.Unit()
						cos := ua.Dot(ub)
						if cr.Norm() > 1e-9*a.Norm()*b.Norm() {
							c.Nontrivial(fmt.Sprint(a, b))
						}
						c.Outcome(fmt.Sprintf("%.3f", cos))
						tol := 1e-9 + 1e-15/math.Max(1+cos, 1e-12)
						if tol > 1e-3 {
							tol = 1e-3
						}
						d["quat"] = fmt.Sprint(qt)
						if math.IsNaN(nq) || math.Abs(nq-1) > tol {
							c.Violation("C20:RotateBetweenVector:not-a-unit-quaternion", d)
							return
						}
						// rotate ua by qt: v' = v + 2w(u x v) + 2 u x (u x v), u = (X,Y,Z)
						u := spatial.Vector3{X: qt.X, Y: qt.Y, Z: qt.Z}
						uv := u.Cross(ua)
						r := ua.Add(uv.Scale(2 * qt.W)).Add(u.Cross(uv).Scale(2))
						if r.Sub(ub).Norm() > 10*tol+1e-7 {
							d["rotated"] = fmt.Sprint(r)
							d["target"] = fmt.Sprint(ub)
							c.Violation("C20:RotateBetweenVector:does-not-carry-first-direction-onto-second", d)
						}
					}},
				{Name: "rotation-extreme-lengths", Serial: true, Bounds: engine.Bounds{InputDev: -1},
					Rule: "RotateBetweenVector for 7 x 7 directions (axes, diagonals, exact opposites included) with each vector scaled by {1, 1e-150, 1e-80, 1e80, 1e150}: the result is a unit quaternion (1e-9) carrying the first direction onto the second (1e-9) — squares and products of the lengths leave the float64 range, the lengths themselves do not; non-trivial = distinct cases with a scale other than 1",
					Body: func(c *engine.Ctx) {
						dirs := []spatial.Vector3{{X: 1}, {Y: -1}, {Z: 2}, {X: 1, Y: 1}, {X: -1, Y: 2, Z: 0.5}, {X: 3, Y: -4, Z: 12}, {X: -1, Y: -1, Z: -1}}
						scales := []float64{1, 1e-150, 1e-80, 1e80, 1e150}
						a := dirs[c.In("a", len(dirs))]
						b := dirs[c.In("b", len(dirs))]
						sa := scales[c.In("sa", len(scales))]
						sb := scales[c.In("sb", len(scales))]
						if c.In("opposite", 2) == 1 {
							b = a.Scale(-1)
						}
						A, B := a.Scale(sa), b.Scale(sb)
						q := spatial.RotateBetweenVector(A, B)
						c.Observe("%v %v -> %v", A, B, q)
						if sa != 1 || sb != 1 {
							c.Nontrivial(fmt.Sprint(A, B))
						}
						n := math.Sqrt(q.W*q.W + q.X*q.X + q.Y*q.Y + q.Z*q.Z)
						// rotate the unit direction of a (computed here from the unscaled vector) by q
						an := math.Sqrt(a.X*a.X + a.Y*a.Y + a.Z*a.Z)
						bn := math.Sqrt(b.X*b.X + b.Y*b.Y + b.Z*b.Z)
						u := spatial.Vector3{X: a.X / an, Y: a.Y / an, Z: a.Z / an}
						w := spatial.Vector3{X: b.X / bn, Y: b.Y / bn, Z: b.Z / bn}
						tx := 2 * (q.Y*u.Z - q.Z*u.Y)
						ty := 2 * (q.Z*u.X - q.X*u.Z)
						tz := 2 * (q.X*u.Y - q.Y*u.X)
						r := spatial.Vector3{X: u.X + q.W*tx + (q.Y*tz - q.Z*ty), Y: u.Y + q.W*ty + (q.Z*tx - q.X*tz), Z: u.Z + q.W*tz + (q.X*ty - q.Y*tx)}
						dist := math.Sqrt((r.X-w.X)*(r.X-w.X) + (r.Y-w.Y)*(r.Y-w.Y) + (r.Z-w.Z)*(r.Z-w.Z))
						c.Outcome(fmt.Sprint(math.Abs(n-1) < 1e-9, dist < 1e-9))
						d := map[string]any{"start": fmt.Sprint(A), "end": fmt.Sprint(B), "quaternion": fmt.Sprint(q), "norm": n, "distance_of_rotated_start_from_end_direction": dist}
						if !(math.Abs(n-1) < 1e-9) {
							c.Violation("C20:RotateBetweenVector:not-a-unit-quaternion[extreme-lengths]", d)
						} else if !(dist < 1e-9) {
							c.Violation("C20:RotateBetweenVector:does-not-carry-start-onto-end[extreme-lengths]", d)
						}
					}},
				{Name: "matrices", Serial: true, Bounds: engine.Bounds{InputDev: -1},
					Rule: "matrices built from 3 generators (rotation-like, shear, scale with entries from the component alphabet) x vectors: (AB)C = A(BC), (AB)v = A(Bv) to 1e-12 relative, unit matrix neutral; non-trivial = distinct triples of pairwise different generators",
					Body: func(c *engine.Ctx) {
						gen := func(i int) spatial.Matrix3 {
							k := vecComps[i%8]
							switch i / 8 {
							case 0:
								return spatial.NewMatrix3(0, -1, 0, 1, 0, 0, 0, 0, k)
							case 1:
								return spatial.NewMatrix3(1, k, 0, 0, 1, k, 0, 0, 1)
							}
							return spatial.NewMatrix3(k, 0, 0.5, 0, 2, 0, 1e-3, 0, -k)
						}
						ia, ib, ic := c.In("A", 24), c.In("B", 24), c.In("C", 24)
						A, B, C := gen(ia), gen(ib), gen(ic)
						v := spatial.Vector3{X: vecComps[c.In("vx", 8)], Y: 1, Z: -2}
						l := A.Mul(B).Mul(C)
						r := A.Mul(B.Mul(C))
						d := map[string]any{"A": fmt.Sprint(A), "B": fmt.Sprint(B), "C": fmt.Sprint(C), "v": fmt.Sprint(v)}
						c.Observe("%v", l)
						if ia != ib && ib != ic && ia != ic {
							c.Nontrivial(fmt.Sprint(ia, ib, ic))
						}
						c.Outcome(fmt.Sprint(l[0][0], l[2][2]))
						scale := 0.0
						for i := 0; i < 3; i++ {
							for j := 0; j < 3; j++ {
								scale = math.Max(scale, math.Max(math.Abs(l[i][j]), math.Abs(r[i][j])))
							}
						}
						for i := 0; i < 3; i++ {
							for j := 0; j < 3; j++ {
								if math.Abs(l[i][j]-r[i][j]) > 1e-12*(1+scale) {
									c.Violation("C20:Matrix3.Mul:not-associative", d)
									return
								}
							}
						}
						x := A.Mul(B).MulVec(v)
						y := A.MulVec(B.MulVec(v))
						sv := math.Max(x.Norm(), y.Norm())
						if x.Sub(y).Norm() > 1e-12*(1+sv) {
							c.Violation("C20:Matrix3.MulVec:disagrees-with-product", d)
						}
						I := spatial.NewUnitMatrix3()
						if I.Mul(A) != A || A.Mul(I) != A || I.MulVec(v) != v {
							c.Violation("C20:Matrix3:unit-matrix-not-neutral", d)
						}
					}},
			}
		},
	})
}

func setS(a []string) map[string]bool {
	m := map[string]bool{}
	for _, v := range a {
		m[v] = true
	}
	return m
}

func head2(a [][]int64, n int) [][]int64 {
	if len(a) > n {
		return a[:n]
	}
	return a
}
