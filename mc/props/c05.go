package props

import (
	"fmt"
	"strings"

	"github.com/trajectoryjp/spatial_id_go/v4/detector"

	"verif/mc/engine"
	"verif/mc/ref"
)

// subtree returns v and all its descendants down to depth levels on both axes
// (every combination of horizontal and vertical refinement).
func subtree(v ref.Vox, depth int64) []ref.Vox {
	var r []ref.Vox
	for dh := int64(0); dh <= depth; dh++ {
		for dv := int64(0); dv <= depth; dv++ {
			if v.H+dh > 35 || v.V+dv > 35 {
				continue
			}
			r = append(r, v.ChangeZoom(v.H+dh, v.V+dv)...)
		}
	}
	return r
}

// cubeSubtree returns v (with H == V) and its descendants at equal zooms.
func cubeSubtree(v ref.Vox, depth int64) []ref.Vox {
	var r []ref.Vox
	for d := int64(0); d <= depth; d++ {
		if v.H+d > 35 {
			continue
		}
		r = append(r, v.ChangeZoom(v.H+d, v.V+d)...)
	}
	return r
}

func recoverCall(f func()) (p any) {
	defer func() { p = recover() }()
	f()
	return nil
}

func init() {
	engine.Register(&engine.Check{
		ID:          "C05",
		Title:       "Overlap detection answers exactly whether two voxel sets intersect",
		Technique:   "exhaustive choice-tree enumeration (E1): all ordered pairs of the voxels of each world, all pairs of short lists, both implementations, against the ancestor-relation reference model",
		Assumptions: []string{"voxels outside the worlds (root classes x 2 levels of descendants x ancestors) and lists longer than 3 are not covered", "reference model: ref.Overlap"},
		Phases: func(tier string) []engine.Phase {
			ws := worlds(tier)
			type sw struct {
				name string
				vox  []ref.Vox
			}
			var extWorlds []sw
			for _, w := range ws {
				vox := subtree(w.root, 2)
				if w.twin != nil {
					vox = append(vox, subtree(*w.twin, 2)...)
				}
				// one ancestor level on each axis (contains both root and twin where they share a parent)
				if w.root.H > 0 && w.root.V > 0 {
					vox = append(vox, w.root.ChangeZoom(w.root.H-1, w.root.V-1)...)
					vox = append(vox, w.root.ChangeZoom(w.root.H, w.root.V-1)...)
					vox = append(vox, w.root.ChangeZoom(w.root.H-1, w.root.V)...)
				}
				extWorlds = append(extWorlds, sw{w.name, vox})
			}
			// spatial-ID worlds: h == v, inside the documented altitude range
			var spWorlds []sw
			zs := []int64{1, 2, 13, 25, 26, 33}
			if tier == "thorough" {
				zs = []int64{1, 2, 3, 7, 13, 24, 25, 26, 27, 30, 33, 34}
			}
			for _, z := range zs {
				n := int64(1) << uint(z)
				half := int64(1) << uint(z-1)
				for _, f := range []int64{-1, 0, half - 1, -half} {
					for pi, xy := range [][2]int64{{0, n - 1}, {n - 1, 0}} {
						if pi == 1 && f != -1 {
							continue
						}
						root := ref.Vox{H: z, X: xy[0], Y: xy[1], V: z, F: f}
						vox := cubeSubtree(root, 2)
						var tw ref.Vox
						hasTwin := false
						if f == -1 {
							tw, hasTwin = ref.Vox{H: z, X: xy[0], Y: xy[1], V: z, F: 0}, true
						} else if f == 0 {
							tw, hasTwin = ref.Vox{H: z, X: xy[0], Y: xy[1], V: z, F: -1}, true
						}
						if hasTwin {
							vox = append(vox, cubeSubtree(tw, 1)...)
						}
						if z > 1 {
							vox = append(vox, root.ChangeZoom(z-1, z-1)...)
						}
						spWorlds = append(spWorlds, sw{root.Spatial(), vox})
					}
				}
			}
			// the zoom-0 world: the single voxel 0/0/0/0 alone (against itself and against the empty
			// list). It reaches 2^25 m, beyond the +-2^24 m the single-zoom form is documented for, so
			// its answers against finer voxels are not judged (the unchanged library answers true
			// against voxels just below ground there).
			spWorlds = append(spWorlds, sw{"0/0/0/0", []ref.Vox{{H: 0, X: 0, Y: 0, V: 0, F: 0}}})
			listAlpha := func(vox []ref.Vox, k int) []ref.Vox {
				// k voxels spread over the world: root, a child, a grandchild, the twin side, an ancestor
				var r []ref.Vox
				step := len(vox) / k
				if step == 0 {
					step = 1
				}
				for i := 0; i < len(vox) && len(r) < k; i += step {
					r = append(r, vox[i])
				}
				return r
			}
			lists := func(a []ref.Vox) [][]ref.Vox {
				r := [][]ref.Vox{{}}
				for i := range a {
					r = append(r, []ref.Vox{a[i]})
				}
				for i := range a {
					for j := range a {
						r = append(r, []ref.Vox{a[i], a[j]})
					}
				}
				for i := range a {
					for j := range a {
						for k := range a {
							if i <= j && j <= k { // order within a list is C16's job; keep multisets
								r = append(r, []ref.Vox{a[i], a[j], a[k]})
							}
						}
					}
				}
				return r
			}
			modelLists := func(a, b []ref.Vox) bool {
				for _, x := range a {
					for _, y := range b {
						if ref.Overlap(x, y) {
							return true
						}
					}
				}
				return false
			}
			// index-collision pool: voxels at different zooms whose raw numbers coincide (same x, y and the
			// same f + 2^(z-1), the index the radix-tree form feeds to the tree): any shortcut keyed on
			// the numbers without the zoom confuses them
			var poolLow, poolHigh []ref.Vox
			lowZ := []int64{1, 2, 3}
			if tier == "thorough" {
				lowZ = []int64{1, 2, 3, 4}
			}
			for _, z := range lowZ {
				half := int64(1) << uint(z-1)
				for x := int64(0); x <= 1; x++ {
					for y := int64(0); y <= 1; y++ {
						for f := -half; f < half; f++ {
							poolLow = append(poolLow, ref.Vox{H: z, X: x, Y: y, V: z, F: f})
						}
					}
				}
			}
			for _, z := range []int64{25, 26, 27} {
				half := int64(1) << uint(z-1)
				for _, idx := range []int64{0, 1, 1 << 24, 1 << 25, 1<<25 + 1} {
					if idx >= 2*half {
						continue
					}
					for x := int64(0); x <= 1; x++ {
						for y := int64(0); y <= 1; y++ {
							poolHigh = append(poolHigh, ref.Vox{H: z, X: x, Y: y, V: z, F: idx - half})
						}
					}
				}
			}
			// digit-boundary pool: an ancestor at a one-digit zoom with descendants at two-digit zooms (textual
			// order "10/.." < "9/..", a leading '-' sorts before digits): nested voxels, both signs of f
			var poolDigit []ref.Vox
			for _, f := range []int64{-1, 0} {
				root := ref.Vox{H: 9, X: 454, Y: 201, V: 9, F: f}
				poolDigit = append(poolDigit, root)
				kids := root.ChangeZoom(10, 10)
				poolDigit = append(poolDigit, kids...)
				poolDigit = append(poolDigit, kids[3].ChangeZoom(11, 11)...)
				poolDigit = append(poolDigit, root.ChangeZoom(8, 8)...)
			}
			pools := [][]ref.Vox{poolLow, poolHigh, poolDigit}
			kList := 6
			if tier == "thorough" {
				kList = 9
			}
			return []engine.Phase{
				respellOverlapPhase(tier),
				longIDListPhase("C05", tier),
				{Name: "ext-pairs", ShardDepth: 2, Bounds: engine.Bounds{InputDev: -1},
					Rule: "for each world (root + all descendants 2 levels down on each axis independently + twin across f=-1|0 + parents): all ordered pairs through CheckExtendedSpatialIdsOverlap vs ref.Overlap; non-trivial = distinct pairs at different zooms on at least one axis (counted separately in counters for true and false answers)",
					Body: func(c *engine.Ctx) {
						w := extWorlds[c.In("world", len(extWorlds))]
						a := w.vox[c.In("a", len(w.vox))]
						b := w.vox[c.In("b", len(w.vox))]
						want := ref.Overlap(a, b)
						var got bool
						var err error
						if p := recoverCall(func() { got, err = detector.CheckExtendedSpatialIdsOverlap(a.Ext(), b.Ext()) }); p != nil {
							c.Violation("C05:CheckExtendedSpatialIdsOverlap:panic", map[string]any{"a": a.Ext(), "b": b.Ext(), "panic": fmt.Sprint(p)})
							return
						}
						c.Observe("%s %s %v %v", a.Ext(), b.Ext(), got, err)
						if a.H != b.H || a.V != b.V {
							c.Nontrivial(a.Ext() + "|" + b.Ext())
						}
						if want {
							c.Count("model_true")
						} else {
							c.Count("model_false")
						}
						c.Outcome(fmt.Sprint(a.H-b.H, a.V-b.V, got))
						d := map[string]any{"call": fmt.Sprintf("detector.CheckExtendedSpatialIdsOverlap(%q, %q)", a.Ext(), b.Ext()), "got": got, "want": want, "err": fmt.Sprint(err)}
						if err != nil {
							c.Violation("C05:CheckExtendedSpatialIdsOverlap:error-on-valid-input", d)
						} else if got != want {
							c.Violation("C05:CheckExtendedSpatialIdsOverlap:answer-differs-from-model", d)
						}
					}},
				{Name: "ext-lists", ShardDepth: 2, Bounds: engine.Bounds{InputDev: -1},
					Rule: "for each world: all ordered pairs of lists (length 0..3 over a spread sub-alphabet) through CheckExtendedSpatialIdsArrayOverlap vs the disjunction of ref.Overlap; empty lists included both ways; non-trivial = distinct list pairs with both lists of length >= 2",
					Body: func(c *engine.Ctx) {
						w := extWorlds[c.In("world", len(extWorlds))]
						ls := lists(listAlpha(w.vox, kList))
						a := ls[c.In("A", len(ls))]
						b := ls[c.In("B", len(ls))]
						want := modelLists(a, b)
						var got bool
						var err error
						ia, ib := ref.Exts(a), ref.Exts(b)
						call := fmt.Sprintf("detector.CheckExtendedSpatialIdsArrayOverlap(%s, %s)", goList(ia), goList(ib))
						if p := recoverCall(func() { got, err = detector.CheckExtendedSpatialIdsArrayOverlap(ia, ib) }); p != nil {
							c.Violation("C05:CheckExtendedSpatialIdsArrayOverlap:panic", map[string]any{"call": call, "panic": fmt.Sprint(p)})
							return
						}
						c.Observe("%s %v %v", call, got, err)
						if len(a) >= 2 && len(b) >= 2 {
							c.Nontrivial(call)
						}
						c.Outcome(fmt.Sprint(len(a), len(b), got))
						d := map[string]any{"call": call, "got": got, "want": want, "err": fmt.Sprint(err)}
						if err != nil {
							c.Violation("C05:CheckExtendedSpatialIdsArrayOverlap:error-on-valid-input", d)
						} else if got != want {
							c.Violation("C05:CheckExtendedSpatialIdsArrayOverlap:answer-differs-from-model", d)
						}
					}},
				{Name: "spatial-pairs", ShardDepth: 2, Bounds: engine.Bounds{InputDev: -1},
					Rule: "for each h=v world inside the documented altitude range (z>=1, -2^(z-1) <= f < 2^(z-1); zooms incl. 26..34; f classes -1, 0, top, bottom): all ordered pairs through the radix-tree check CheckSpatialIdsOverlap vs ref.Overlap and vs the zoom-change implementation; non-trivial = distinct pairs at different zooms",
					Body: func(c *engine.Ctx) {
						w := spWorlds[c.In("world", len(spWorlds))]
						a := w.vox[c.In("a", len(w.vox))]
						b := w.vox[c.In("b", len(w.vox))]
						want := ref.Overlap(a, b)
						var got bool
						var err error
						call := fmt.Sprintf("detector.CheckSpatialIdsOverlap(%q, %q)", a.Spatial(), b.Spatial())
						if p := recoverCall(func() { got, err = detector.CheckSpatialIdsOverlap(a.Spatial(), b.Spatial()) }); p != nil {
							c.Violation("C05:CheckSpatialIdsOverlap:panic", map[string]any{"call": call, "panic": fmt.Sprint(p)})
							return
						}
						c.Observe("%s %v %v", call, got, err)
						if a.H != b.H {
							c.Nontrivial(call)
						}
						if want {
							c.Count("model_true")
						} else {
							c.Count("model_false")
						}
						c.Outcome(fmt.Sprint(a.H, b.H, got, err != nil))
						d := map[string]any{"call": call, "got": got, "want": want, "err": fmt.Sprint(err)}
						if err != nil {
							cls := ""
							for _, x := range []ref.Vox{a, b} {
								if x.F == (int64(1)<<uint(x.H-1))-1 {
									cls = "[top-index-of-zoom]"
								}
							}
							c.Violation("C05:CheckSpatialIdsOverlap:error-on-valid-input"+cls, d)
						} else if got != want {
							cls := ""
							if a.H > 25 || b.H > 25 {
								cls = "[zoom>25]"
							}
							c.Violation("C05:CheckSpatialIdsOverlap:answer-differs-from-model"+cls, d)
						}
						got2, err2 := detector.CheckExtendedSpatialIdsOverlap(a.Ext(), b.Ext())
						if err == nil && err2 == nil && got != got2 {
							c.Violation("C05:CheckSpatialIdsOverlap:disagrees-with-extended-check", d)
						}
					}},
				{Name: "index-collision-lists", ShardDepth: 3, Bounds: engine.Bounds{InputDev: -1},
					Rule: "two pools of h=v voxels whose raw numbers coincide across zooms (zooms 1..3(4): all f x (x,y) in {0,1}^2; zooms 25..27: equal tree indices; zooms 8..11 nested across the one-digit/two-digit zoom boundary): all triples ([a],[b1,b2]) and ([b1,b2],[a]) through both array forms vs the disjunction of ref.Overlap; non-trivial = distinct triples where b1 and b2 are at different zooms",
					Body: func(c *engine.Ctx) {
						pool := pools[c.In("pool", 3)]
						a := pool[c.In("a", len(pool))]
						b1 := pool[c.In("b1", len(pool))]
						b2 := pool[c.In("b2", len(pool))]
						want := ref.Overlap(a, b1) || ref.Overlap(a, b2)
						A := []string{a.Spatial()}
						B := []string{b1.Spatial(), b2.Spatial()}
						if b1.H != b2.H {
							c.Nontrivial(fmt.Sprint(A, B))
						}
						type res struct {
							name string
							got  bool
							err  error
						}
						var rs []res
						g, e := detector.CheckSpatialIdsArrayOverlap(A, B)
						rs = append(rs, res{"CheckSpatialIdsArrayOverlap(A,B)", g, e})
						g, e = detector.CheckSpatialIdsArrayOverlap(B, A)
						rs = append(rs, res{"CheckSpatialIdsArrayOverlap(B,A)", g, e})
						g, e = detector.CheckExtendedSpatialIdsArrayOverlap([]string{a.Ext()}, []string{b1.Ext(), b2.Ext()})
						rs = append(rs, res{"CheckExtendedSpatialIdsArrayOverlap(A,B)", g, e})
						g, e = detector.CheckExtendedSpatialIdsArrayOverlap([]string{b1.Ext(), b2.Ext()}, []string{a.Ext()})
						rs = append(rs, res{"CheckExtendedSpatialIdsArrayOverlap(B,A)", g, e})
						c.Observe("%v %v %v", A, B, rs)
						c.Outcome(fmt.Sprint(want, rs[0].got))
						for _, r := range rs {
							if r.err != nil || r.got != want {
								c.Violation("C05:"+strings.SplitN(r.name, "(", 2)[0]+":answer-differs-from-model[numbers-coincide-across-zooms]",
									map[string]any{"call": r.name, "A": A, "B": B, "got": r.got, "want": want, "err": fmt.Sprint(r.err)})
							}
						}
					}},
				{Name: "spatial-lists", ShardDepth: 2, Bounds: engine.Bounds{InputDev: -1},
					Rule: "for each h=v world: all ordered pairs of lists (length 0..3) through CheckSpatialIdsArrayOverlap vs the disjunction of ref.Overlap, empty lists both ways; non-trivial = distinct list pairs with both lists of length >= 2",
					Body: func(c *engine.Ctx) {
						w := spWorlds[c.In("world", len(spWorlds))]
						ls := lists(listAlpha(w.vox, kList-1))
						a := ls[c.In("A", len(ls))]
						b := ls[c.In("B", len(ls))]
						want := modelLists(a, b)
						sa := make([]string, len(a))
						for i := range a {
							sa[i] = a[i].Spatial()
						}
						sb := make([]string, len(b))
						for i := range b {
							sb[i] = b[i].Spatial()
						}
						var got bool
						var err error
						call := fmt.Sprintf("detector.CheckSpatialIdsArrayOverlap(%s, %s)", goList(sa), goList(sb))
						if p := recoverCall(func() { got, err = detector.CheckSpatialIdsArrayOverlap(sa, sb) }); p != nil {
							cls := ""
							if len(sa) == 0 {
								cls = "[empty-first-list]"
							}
							c.Violation("C05:CheckSpatialIdsArrayOverlap:panic"+cls, map[string]any{"call": call, "panic": fmt.Sprint(p)})
							return
						}
						c.Observe("%s %v %v", call, got, err)
						if len(a) >= 2 && len(b) >= 2 {
							c.Nontrivial(call)
						}
						c.Outcome(fmt.Sprint(len(a), len(b), got, err != nil))
						d := map[string]any{"call": call, "got": got, "want": want, "err": fmt.Sprint(err)}
						if err != nil {
							c.Violation("C05:CheckSpatialIdsArrayOverlap:error-on-valid-input", d)
						} else if got != want {
							c.Violation("C05:CheckSpatialIdsArrayOverlap:answer-differs-from-model", d)
						}
					}},
			}
		},
	})
}
