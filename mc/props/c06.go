package props

import (
	"fmt"
	"math"

	"github.com/trajectoryjp/spatial_id_go/v4/common/object"
	"github.com/trajectoryjp/spatial_id_go/v4/shape"

	"verif/mc/alpha"
	"verif/mc/engine"
	"verif/mc/ref"
)

// gridToGeo converts fractional grid coordinates (column, row, vertical cell)
// to (lon, lat, alt); ok is false outside the documented domain.
func gridToGeo(X, Y, F float64, h, v int64) (lon, lat, alt float64, ok bool) {
	n := math.Ldexp(1, int(h))
	lon = X*360/n - 180
	lat = math.Atan(math.Sinh(math.Pi*(1-2*Y/n))) * (180 / math.Pi)
	alt = math.Ldexp(F, int(25-v))
	ok = lon >= -180 && lon <= 180 && math.Abs(lat) <= ref.LatLimit-1e-9 && math.Abs(alt) <= math.Ldexp(1, 25)
	return
}

// segmentHitsBox: slab test of the segment p0->p1 against the box [lo,hi] per
// axis widened by eps.
func segmentHitsBox(p0, p1, lo, hi, eps [3]float64) bool {
	t0, t1 := 0.0, 1.0
	for i := 0; i < 3; i++ {
		l, hgh := lo[i]-eps[i], hi[i]+eps[i]
		d := p1[i] - p0[i]
		if d == 0 {
			if p0[i] < l || p0[i] > hgh {
				return false
			}
			continue
		}
		a := (l - p0[i]) / d
		b := (hgh - p0[i]) / d
		if a > b {
			a, b = b, a
		}
		if a > t0 {
			t0 = a
		}
		if b < t1 {
			t1 = b
		}
		if t0 > t1 {
			return false
		}
	}
	return true
}

// lineOracle applies the C06 oracle to one segment; it returns the number of IDs.
func lineOracle(c *engine.Ctx, s, e *object.Point, h, v int64, desc string) int {
	ids, err := shape.GetExtendedSpatialIdsOnLine(s, e, h, v)
	call := fmt.Sprintf("shape.GetExtendedSpatialIdsOnLine(NewPoint(%v,%v,%v), NewPoint(%v,%v,%v), %d, %d) [%s]", s.Lon(), s.Lat(), s.Alt(), e.Lon(), e.Lat(), e.Alt(), h, v, desc)
	d := map[string]any{"call": call}
	if err != nil {
		c.Violation("C06:GetExtendedSpatialIdsOnLine:error-on-valid-input", d)
		return 0
	}
	c.Observe("%s -> %d", call, len(ids))
	d["ids"] = head(sortedCopy(ids), 30)
	if dp := dupOf(ids); dp != "" {
		d["dup"] = dp
		c.Violation("C06:GetExtendedSpatialIdsOnLine:duplicate-in-result", d)
	}
	ends, err := shape.GetExtendedSpatialIdsOnPoints([]*object.Point{s, e}, h, v)
	if err != nil {
		return len(ids)
	}
	set := map[ref.Vox]bool{}
	for _, id := range ids {
		vx, ok := ref.ParseExt(id)
		if !ok || vx.H != h || vx.V != v {
			d["bad"] = id
			c.Violation("C06:GetExtendedSpatialIdsOnLine:malformed-or-wrong-zoom-id", d)
			return len(ids)
		}
		set[vx] = true
	}
	sv, ev := ref.MustExt(ends[0]), ref.MustExt(ends[1])
	if !set[sv] || !set[ev] {
		d["start_voxel"], d["end_voxel"] = ends[0], ends[1]
		c.Violation("C06:GetExtendedSpatialIdsOnLine:end-point-voxel-missing", d)
	}
	if sv == ev && (len(ids) != 1 || ids[0] != ends[0]) {
		c.Violation("C06:GetExtendedSpatialIdsOnLine:same-voxel-end-points-give-more-than-that-id", d)
	}
	// every voxel is touched by the segment
	p0 := [3]float64{s.Lon(), s.Lat(), s.Alt()}
	p1 := [3]float64{e.Lon(), e.Lat(), e.Alt()}
	amax := math.Max(math.Abs(p0[2]), math.Abs(p1[2]))
	eps := [3]float64{1e-12, 1e-10 + 1e-12, 1e-9 + 8*amax*2.3e-16}
	for vx := range set {
		lo := [3]float64{ref.LonBoundary(vx.X, h), ref.RowBoundaryLat(vx.Y+1, h), ref.AltBoundary(vx.F, v)}
		hi := [3]float64{ref.LonBoundary(vx.X+1, h), ref.RowBoundaryLat(vx.Y, h), ref.AltBoundary(vx.F+1, v)}
		hit := segmentHitsBox(p0, p1, lo, hi, eps)
		if !hit && vx.X == 0 {
			// longitude 180 is identified with -180 (C01): column 0 also owns the meridian at +180
			lo2, hi2 := lo, hi
			lo2[0], hi2[0] = lo[0]+360, hi[0]+360
			hit = segmentHitsBox(p0, p1, lo2, hi2, eps)
		}
		if !hit {
			d["voxel"], d["box_lo"], d["box_hi"] = vx.Ext(), lo, hi
			c.Violation("C06:GetExtendedSpatialIdsOnLine:voxel-not-touched-by-the-segment", d)
			break
		}
	}
	// connectivity under 26-adjacency (x wraps)
	n := int64(1) << uint(h)
	seen := map[ref.Vox]bool{sv: true}
	q := []ref.Vox{sv}
	for len(q) > 0 {
		cur := q[0]
		q = q[1:]
		for dx := int64(-1); dx <= 1; dx++ {
			for dy := int64(-1); dy <= 1; dy++ {
				for df := int64(-1); df <= 1; df++ {
					nb := ref.Vox{H: h, X: ((cur.X+dx)%n + n) % n, Y: cur.Y + dy, V: v, F: cur.F + df}
					if set[nb] && !seen[nb] {
						seen[nb] = true
						q = append(q, nb)
					}
				}
			}
		}
	}
	if set[sv] && len(seen) != len(set) {
		for vx := range set {
			if !seen[vx] {
				d["unreached"] = vx.Ext()
				break
			}
		}
		c.Violation("C06:GetExtendedSpatialIdsOnLine:not-a-connected-chain", d)
	}
	if h == v {
		sp, err := shape.GetSpatialIdsOnLine(s, e, h)
		ok := err == nil && len(sp) == len(ids)
		if ok {
			for _, x := range sp {
				vx, pk := ref.ParseSpatial(x)
				if !pk || !set[vx] {
					ok = false
				}
			}
		}
		if !ok {
			c.Violation("C06:GetSpatialIdsOnLine:differs-from-extended-form", d)
		}
	}
	return len(ids)
}

func init() {
	engine.Register(&engine.Check{
		ID:        "C06",
		Title:     "A line is voxelised without gaps, onto voxels the segment really touches",
		Technique: "exhaustive choice-tree enumeration (E1) of zoom pairs x base voxels x start positions x end offsets in voxel units (axis-parallel, diagonal, through corners, crossing f=0, near the latitude limit, threshold zooms) against a slab-intersection test and breadth-first connectivity",
		Assumptions: []string{
			"segments longer than 7 voxels per axis and positions outside the alphabets are not covered",
			"a voxel counts as touched if the segment meets its box widened by 1e-10 deg latitude (documented resolution), 1e-12 deg longitude, 1e-9 m",
		},
		Phases: func(tier string) []engine.Phase {
			zs := zooms(tier)
			vzs := zs
			if tier != "thorough" {
				vzs = []int64{0, 3, 25, 33, 34, 35}
			}
			offs := []float64{0, 1, -1, 2.5, -2.5, 7, -7}
			starts := [][3]float64{{0.5, 0.5, 0.5}, {0, 0, 0}, {0.25, 0.75, 0.5}}
			return []engine.Phase{
				{Name: "segments", ShardDepth: 2, Bounds: engine.Bounds{InputDev: -1},
					Rule: "full product h x v x base voxel (mid-grid, first column/last row, equator, f in {-1,0}) x start position {centre, NW-bottom corner, (1/4,3/4,1/2)} x end offset (dx,dy,df) in {0,+-1,+-2.5,+-7}^3 voxel units; oracle: duplicate-free, both end voxels present, every voxel touched (slab test), connected under 26-adjacency, single ID when the ends share a voxel, spatial form equal; non-trivial = distinct segments whose result has >= 3 voxels",
					Body: func(c *engine.Ctx) {
						h := zs[c.In("h", len(zs))]
						v := vzs[c.In("v", len(vzs))]
						n := int64(1) << uint(h)
						type bv struct{ x, y, f int64 }
						bases := []bv{{n / 2, n / 2, 0}, {n / 2, n/2 - 1, -1}, {0, n - 1, 0}, {n - 1, 0, -1}, {0x5555555555 & (n - 1), n / 4, 2}}
						b := bases[c.In("base", len(bases))]
						st := starts[c.In("start", len(starts))]
						dx := offs[c.In("dx", len(offs))]
						dy := offs[c.In("dy", len(offs))]
						df := offs[c.In("df", len(offs))]
						X0, Y0, F0 := float64(b.x)+st[0], float64(b.y)+st[1], float64(b.f)+st[2]
						lon0, lat0, alt0, ok0 := gridToGeo(X0, Y0, F0, h, v)
						lon1, lat1, alt1, ok1 := gridToGeo(X0+dx, Y0+dy, F0+df, h, v)
						if !ok0 || !ok1 {
							c.Skip("outside-domain")
						}
						s, e1 := object.NewPoint(lon0, lat0, alt0)
						e, e2 := object.NewPoint(lon1, lat1, alt1)
						if e1 != nil || e2 != nil {
							c.Skip("point-rejected")
						}
						nIDs := lineOracle(c, s, e, h, v, fmt.Sprintf("base=%v start=%v off=(%v,%v,%v)", b, st, dx, dy, df))
						if nIDs >= 3 {
							c.Nontrivial(fmt.Sprint(h, v, b, st, dx, dy, df))
						}
						c.Outcome(fmt.Sprint(nIDs))
						c.CountN("ids_returned", int64(nIDs))
						if c.WantSample() && nIDs > 5 {
							c.Sample(map[string]any{"h": h, "v": v, "start": []float64{lon0, lat0, alt0}, "end": []float64{lon1, lat1, alt1}, "ids": nIDs})
						}
					}},
				{Name: "long-meridional", ShardDepth: 3, Bounds: engine.Bounds{InputDev: -1},
					Rule: "coarse zooms 2..6 x segments along a meridian / parallel / space diagonal between latitude classes {-85, -60, 0, 45, 85} x altitude classes crossing f=0: same oracle on long segments (rows of very different size); non-trivial = distinct segments with >= 3 voxels",
					Body: func(c *engine.Ctx) {
						h := int64(c.In("h", 5)) + 2
						v := []int64{0, 3, 10}[c.In("v", 3)]
						lats := []float64{-85, -60, 0, 45, 85}
						lons := []float64{-179.5, -10, 10.001, 179.5}
						alts := []float64{-5e6, 0, 4.5e6, 3e7}
						s, _ := object.NewPoint(lons[c.In("lon0", 4)], lats[c.In("lat0", 5)], alts[c.In("alt0", 4)])
						e, _ := object.NewPoint(lons[c.In("lon1", 4)], lats[c.In("lat1", 5)], alts[c.In("alt1", 4)])
						nIDs := lineOracle(c, s, e, h, v, "long")
						if nIDs >= 3 {
							c.Nontrivial(fmt.Sprint(h, v, *s, *e))
						}
						c.Outcome(fmt.Sprint(nIDs))
					}},
			}
		},
	})
	_ = alpha.Zall
}
