package props

import (
	"fmt"
	"math"
	"strings"

	"github.com/trajectoryjp/spatial_id_go/v4/common/enum"
	"github.com/trajectoryjp/spatial_id_go/v4/common/object"
	"github.com/trajectoryjp/spatial_id_go/v4/detector"
	"github.com/trajectoryjp/spatial_id_go/v4/integrate"
	"github.com/trajectoryjp/spatial_id_go/v4/operated"
	"github.com/trajectoryjp/spatial_id_go/v4/shape"
	"github.com/trajectoryjp/spatial_id_go/v4/transform"

	"verif/mc/alpha"
	"verif/mc/engine"
	"verif/mc/ref"
)

const goodExt = "3/1/2/3/-1"
const goodSp = "3/-1/1/2"

// idConsumer is one exported function that takes ID strings.
type idConsumer struct {
	name      string
	spatial   bool // takes z/f/x/y (else h/x/y/v/f)
	arityOnly bool // only the number of fields is interpreted
	shiftLike bool // no error result: malformed => empty ID(s)
	noErr     bool // no error result at all (only "no panic" is required)
	// call runs the function with the candidate at position pos of its list/pair
	// and reports (error, all results empty-string/empty) .
	call func(bad string, pos int) (err error, emptyIDs bool)
}

func listWith(bad, good string, pos int) []string {
	switch pos {
	case 0:
		return []string{bad}
	case 1:
		return []string{good, bad}
	}
	return []string{bad, good}
}

func allEmpty(s []string) bool {
	for _, x := range s {
		if x != "" {
			return false
		}
	}
	return true
}

var idConsumers = []idConsumer{
	{name: "object.NewExtendedSpatialID", call: func(b string, p int) (error, bool) { _, e := object.NewExtendedSpatialID(b); return e, false }},
	{name: "shape.GetPointOnExtendedSpatialId", call: func(b string, p int) (error, bool) {
		_, e := shape.GetPointOnExtendedSpatialId(b, enum.PointOption(p%2))
		return e, false
	}},
	{name: "shape.GetPointOnSpatialId", spatial: true, call: func(b string, p int) (error, bool) {
		_, e := shape.GetPointOnSpatialId(b, enum.PointOption(p%2))
		return e, false
	}},
	{name: "shape.ConvertSpatialIdsToExtendedSpatialIds", spatial: true, arityOnly: true, call: func(b string, p int) (error, bool) {
		_, e := shape.ConvertSpatialIdsToExtendedSpatialIds(listWith(b, goodSp, p))
		return e, false
	}},
	{name: "shape.ConvertExtendedSpatialIdsToSpatialIds", arityOnly: true, call: func(b string, p int) (error, bool) {
		_, e := shape.ConvertExtendedSpatialIdsToSpatialIds(listWith(b, goodExt, p))
		return e, false
	}},
	{name: "integrate.ChangeExtendedSpatialIdsZoom", call: func(b string, p int) (error, bool) {
		_, e := integrate.ChangeExtendedSpatialIdsZoom(listWith(b, goodExt, p), 3, 3)
		return e, false
	}},
	{name: "integrate.ChangeSpatialIdsZoom", spatial: true, call: func(b string, p int) (error, bool) {
		_, e := integrate.ChangeSpatialIdsZoom(listWith(b, goodSp, p), 3)
		return e, false
	}},
	{name: "integrate.MergeExtendedSpatialIds", call: func(b string, p int) (error, bool) {
		_, e := integrate.MergeExtendedSpatialIds(listWith(b, goodExt, p), 2, 2)
		return e, false
	}},
	{name: "integrate.MergeSpatialIds", spatial: true, call: func(b string, p int) (error, bool) {
		_, e := integrate.MergeSpatialIds(listWith(b, goodSp, p), 2)
		return e, false
	}},
	{name: "detector.CheckExtendedSpatialIdsOverlap", call: func(b string, p int) (error, bool) {
		var r bool
		var e error
		if p%2 == 0 {
			r, e = detector.CheckExtendedSpatialIdsOverlap(b, goodExt)
		} else {
			r, e = detector.CheckExtendedSpatialIdsOverlap(goodExt, b)
		}
		if e != nil && r {
			return fmt.Errorf("TRUE-WITH-ERROR: %v", e), false
		}
		return e, false
	}},
	{name: "detector.CheckExtendedSpatialIdsArrayOverlap", call: func(b string, p int) (error, bool) {
		var r bool
		var e error
		if p == 2 {
			r, e = detector.CheckExtendedSpatialIdsArrayOverlap([]string{"3/0/0/3/5"}, listWith(b, goodExt, 1))
		} else {
			r, e = detector.CheckExtendedSpatialIdsArrayOverlap(listWith(b, goodExt, p), []string{"3/0/0/3/5"})
		}
		if e != nil && r {
			return fmt.Errorf("TRUE-WITH-ERROR: %v", e), false
		}
		return e, false
	}},
	{name: "detector.CheckSpatialIdsOverlap", spatial: true, call: func(b string, p int) (error, bool) {
		var r bool
		var e error
		if p%2 == 0 {
			r, e = detector.CheckSpatialIdsOverlap(b, goodSp)
		} else {
			r, e = detector.CheckSpatialIdsOverlap(goodSp, b)
		}
		if e != nil && r {
			return fmt.Errorf("TRUE-WITH-ERROR: %v", e), false
		}
		return e, false
	}},
	{name: "detector.CheckSpatialIdsArrayOverlap", spatial: true, call: func(b string, p int) (error, bool) {
		var r bool
		var e error
		if p == 2 {
			r, e = detector.CheckSpatialIdsArrayOverlap([]string{"3/1/0/0"}, listWith(b, goodSp, 1))
		} else {
			r, e = detector.CheckSpatialIdsArrayOverlap(listWith(b, goodSp, p), []string{"3/1/0/0"})
		}
		if e != nil && r {
			return fmt.Errorf("TRUE-WITH-ERROR: %v", e), false
		}
		return e, false
	}},
	{name: "transform.ConvertExtendedSpatialIDsToQuadkeysAndVerticalIDs", call: func(b string, p int) (error, bool) {
		_, e := transform.ConvertExtendedSpatialIDsToQuadkeysAndVerticalIDs(listWith(b, goodExt, p), 3, 3, 0, 0)
		return e, false
	}},
	{name: "transform.ConvertExtendedSpatialIDsToQuadkeysAndVerticalIDs(height-range)", call: func(b string, p int) (error, bool) {
		_, e := transform.ConvertExtendedSpatialIDsToQuadkeysAndVerticalIDs(listWith(b, goodExt, p), 3, 3, 100, -100)
		return e, false
	}},
	{name: "transform.ConvertSpatialIDsToQuadkeysAndVerticalIDs", spatial: true, call: func(b string, p int) (error, bool) {
		_, e := transform.ConvertSpatialIDsToQuadkeysAndVerticalIDs(listWith(b, goodSp, p), 3, 3, 0, 0)
		return e, false
	}},
	{name: "transform.ConvertExtendedSpatialIDsToQuadkeysAndAltitudekeys", call: func(b string, p int) (error, bool) {
		_, e := transform.ConvertExtendedSpatialIDsToQuadkeysAndAltitudekeys(listWith(b, goodExt, p), 3, 3, 25, 1<<24)
		return e, false
	}},
	{name: "transform.FitClearanceAroundExtendedSpatialID", call: func(b string, p int) (error, bool) {
		_, _, e := transform.FitClearanceAroundExtendedSpatialID(b, 0)
		return e, false
	}},
	{name: "transform.GetVoxelIDfromSpatialID", noErr: true, call: func(b string, p int) (error, bool) {
		transform.GetVoxelIDfromSpatialID(b)
		return nil, false
	}},
	{name: "operated.GetShiftingSpatialID", shiftLike: true, call: func(b string, p int) (error, bool) {
		return nil, operated.GetShiftingSpatialID(b, 1, int64(p), -1) == ""
	}},
	{name: "operated.Get6spatialIdsAdjacentToFaces", shiftLike: true, call: func(b string, p int) (error, bool) {
		return nil, allEmpty(operated.Get6spatialIdsAdjacentToFaces(b))
	}},
	{name: "operated.Get8spatialIdsAroundHorizontal", shiftLike: true, call: func(b string, p int) (error, bool) {
		return nil, allEmpty(operated.Get8spatialIdsAroundHorizontal(b))
	}},
	{name: "operated.Get26spatialIdsAroundVoxel", shiftLike: true, call: func(b string, p int) (error, bool) {
		return nil, allEmpty(operated.Get26spatialIdsAroundVoxel(b))
	}},
	{name: "operated.GetNspatialIdsAroundVoxcels", shiftLike: true, call: func(b string, p int) (error, bool) {
		r, e := operated.GetNspatialIdsAroundVoxcels([]string{b}, 1, 1)
		if e != nil {
			return nil, true // an error is as acceptable as empty IDs here
		}
		return nil, allEmpty(r)
	}},
}

func zoomFieldsOK(v ref.Vox) bool { return v.H >= 0 && v.H <= 35 && v.V >= 0 && v.V <= 35 }

// judgeID runs every consumer on one candidate string.
func judgeID(c *engine.Ctx, cand string, positions int) {
	ext, extOK := ref.ParseExt(cand)
	sp, spOK := ref.ParseSpatial(cand)
	if (extOK && !zoomFieldsOK(ext)) || (spOK && !zoomFieldsOK(sp)) {
		c.Skip("well-formed-with-zoom-field-outside-0..35")
	}
	nf := len(strings.Split(cand, "/"))
	for ci := range idConsumers {
		f := &idConsumers[ci]
		wellFormed := extOK
		arityOK := nf == 5
		if f.spatial {
			wellFormed = spOK
			arityOK = nf == 4
		}
		if wellFormed {
			w := ext
			if f.spatial {
				w = sp
			}
			if w.H > 6 || w.V > 6 {
				// well-formed for this function: only "no panic" could be checked, and zoom
				// spreads against the companion ID make merge/zoom-change exponential
				c.Count("wellformed_skipped_costly")
				continue
			}
		}
		for pos := 0; pos < positions; pos++ {
			var err error
			var empty bool
			p := recoverCall(func() { err, empty = f.call(cand, pos) })
			d := map[string]any{"function": f.name, "id": cand, "position": pos}
			if p != nil {
				d["panic"] = fmt.Sprint(p)
				c.Violation("C15:"+f.name+":panic-on-malformed-id", d)
				continue
			}
			if err != nil && strings.HasPrefix(err.Error(), "TRUE-WITH-ERROR") {
				c.Violation("C15:"+f.name+":true-returned-together-with-error", d)
			}
			if wellFormed {
				c.Count("wellformed_calls")
				continue // only "no panic" is required here
			}
			c.Count("malformed_calls")
			switch {
			case f.noErr:
			case f.shiftLike:
				if !empty {
					c.Violation("C15:"+f.name+":non-empty-id-for-malformed-input", d)
				}
			case f.arityOnly:
				if !arityOK && err == nil {
					c.Violation("C15:"+f.name+":no-error-for-wrong-arity", d)
				}
			default:
				if err == nil {
					c.Violation("C15:"+f.name+":no-error-for-malformed-id", d)
				}
			}
		}
	}
}

var badTokens = []string{"", " ", "a", "1.5", "1e3", "0x1", "１", "1 ", " 1", "--1", "+-1", "9223372036854775808", "-9223372036854775809", "1_0", "\t1", "1\n", "٣"}

func init() {
	engine.Register(&engine.Check{
		ID:          "C15",
		Title:       "Invalid input is rejected with an error, never a panic or a silent answer",
		Technique:   "exhaustive choice-tree enumeration (E1): every string over an 8-letter alphabet up to a length bound, every single-field mutation and arity edit of well-formed IDs, every invalid numeric argument of an int64/float alphabet, through every error-returning exported function, against a re-implemented input grammar",
		Assumptions: []string{"strings longer than the bound or with letters outside the alphabet are covered only through the mutation tokens", "reference grammar: ref.ParseInt/ParseExt/ParseSpatial (the language of strconv.ParseInt base 10)"},
		Phases: func(tier string) []engine.Phase {
			sigma := []byte{'0', '1', '9', '-', '+', '/', 'a', ' '}
			maxLen := 5
			if tier == "thorough" {
				maxLen = 7 // reaches every well-formed 4-field ID with one-character fields
			}
			shortStrings := func(sigma []byte, maxLen int) func(c *engine.Ctx) {
				return func(c *engine.Ctx) {
					var b []byte
					for i := 0; i < maxLen; i++ {
						k := 1 + c.In("ch", len(sigma))
						b = append(b, sigma[k-1])
					}
					s := string(b)
					c.Observe("%q", s)
					if strings.Count(s, "/") >= 3 {
						c.Nontrivial(s)
					}
					judgeID(c, s, 1)
					if c.WantSample() && strings.Count(s, "/") == 4 {
						c.Sample(map[string]any{"candidate": s})
					}
				}
			}
			var extra []engine.Phase
			small := []byte{'0', '-', '/', 'a'}
			nSmall := "{0,-,/,a} (327 680 strings;"
			if tier == "thorough" {
				small = []byte{'0', '1', '9', '-', '+', '/', 'a'}
				nSmall = "{0,1,9,-,+,/,a} (46 118 408 strings;"
			}
			{
				extra = append(extra,
					engine.Phase{Name: "all-strings-of-length-8-and-9", ShardDepth: 3, Bounds: engine.Bounds{InputDev: -1},
						Rule: "every string of length exactly 8 and exactly 9 over " + nSmall + " contains every 5-field ID with one-character fields and every one-character corruption of it within the alphabet) through the 24 ID-consuming functions, same oracle as all-short-strings",
						Body: func(c *engine.Ctx) {
							if c.In("len", 2) == 0 {
								shortStrings(small, 8)(c)
							} else {
								shortStrings(small, 9)(c)
							}
						}})
			}
			return append([]engine.Phase{
				{Name: "all-short-strings", ShardDepth: 3, Bounds: engine.Bounds{InputDev: -1},
					Rule: "every string over {0,1,9,-,+,/,a,space} up to the length bound as the candidate ID of each of the 24 ID-consuming functions (list functions: as only element): malformed => error / empty ID, never a panic; well-formed => no panic; non-trivial = distinct malformed strings containing at least three '/'",
					Body: func(c *engine.Ctx) {
						var b []byte
						for i := 0; i < maxLen; i++ {
							k := c.In("ch", len(sigma)+1)
							if k == 0 {
								break
							}
							b = append(b, sigma[k-1])
						}
						s := string(b)
						c.Observe("%q", s)
						if strings.Count(s, "/") >= 3 {
							c.Nontrivial(s)
						}
						judgeID(c, s, 1)
						if c.WantSample() && strings.Count(s, "/") == 3 {
							c.Sample(map[string]any{"candidate": s})
						}
					}},
				{Name: "slash-skeletons", ShardDepth: 3, Bounds: engine.Bounds{InputDev: -1},
					Rule: "IDs of 3..6 fields over a well-formed skeleton with zero, one or two fields replaced by a bad token from {'',a,' ',-,1a,+}: every arity and every placement of the bad fields, in all three list positions; non-trivial = distinct malformed candidates with 4 or 5 fields",
					Body: func(c *engine.Ctx) {
						btok := []string{"", "a", " ", "-", "1a", "+"}
						skel := []string{"3", "1", "2", "3", "-1", "1"}
						nf := c.In("fields", 4) + 3
						parts := append([]string(nil), skel[:nf]...)
						nbad := c.In("nbad", 3)
						last := -1
						for i := 0; i < nbad; i++ {
							pos := c.In("badpos", nf)
							if pos <= last {
								c.Skip("bad-positions-not-increasing")
							}
							last = pos
							parts[pos] = btok[c.In("tok", len(btok))]
						}
						s := strings.Join(parts, "/")
						c.Observe("%q", s)
						if nf == 4 || nf == 5 {
							c.Nontrivial(s)
						}
						judgeID(c, s, 3)
					}},
				{Name: "field-mutations", ShardDepth: 2, Bounds: engine.Bounds{InputDev: -1},
					Rule: "well-formed base IDs (both notations, several zooms, negative f) x field index x 17 bad tokens, plus arity edits (drop/add field, leading/trailing/doubled '/'), in all three list positions; all are malformed: error required from every interpreting function; non-trivial = distinct mutated strings",
					Body: func(c *engine.Ctx) {
						bases := []string{goodExt, goodSp, "0/0/0/0/0", "0/0/0/0", "25/1/2/25/-3", "35/34359738367/0/35/-34359738368", "31/-5/7/9"}
						base := bases[c.In("base", len(bases))]
						parts := strings.Split(base, "/")
						kind := c.In("edit", 2)
						var s string
						if kind == 0 {
							fi := c.In("field", len(parts))
							tok := badTokens[c.In("token", len(badTokens))]
							q := append([]string(nil), parts...)
							q[fi] = tok
							s = strings.Join(q, "/")
						} else {
							switch c.In("arity-edit", 7) {
							case 0:
								s = strings.Join(parts[1:], "/")
							case 1:
								s = strings.Join(parts[:len(parts)-1], "/")
							case 2:
								s = base + "/1"
							case 3:
								s = "/" + base
							case 4:
								s = base + "/"
							case 5:
								s = strings.Replace(base, "/", "//", 1)
							case 6:
								s = strings.Join(parts[:2], "/")
							}
						}
						c.Observe("%q", s)
						c.Nontrivial(s)
						judgeID(c, s, 3)
					}},
				{Name: "numeric-arguments", Serial: true, Bounds: engine.Bounds{InputDev: -1},
					Rule: "every int64 of the zoom/layer alphabet as each zoom argument of every function that takes one (invalid => error and the documented empty/false result), quadkey zooms 1..31, options {-1,2}, negative radius/clearance/layers, TileXYZ zooms; non-trivial = distinct (function, argument) with an invalid argument",
					Body: numericArgs},
				{Name: "overlap-hit-next-to-malformed", Serial: true, Bounds: engine.Bounds{InputDev: -1},
					Rule: "array overlap checks (extended and z/f/x/y form) on lists in which a valid ID that really overlaps the other list stands before or after a malformed one (8 kinds of malformed ID), in the first or the second list: the answer is either (true, nil) — the operation stopped at the hit without interpreting the rest — or (false, error); never true together with an error, never (false, nil); non-trivial = distinct (function, malformed ID, placement)",
					Body: func(c *engine.Ctx) {
						spatial := c.In("form", 2) == 1
						bads := []string{"", "a/b/c/d/e", "3/1/2/3", "3/1/2/3/-1/0", "3/1/x/3/-1", "36/0/0/36/0", "3/1/2/3/ 1", "３/1/2/3/-1"}
						if spatial {
							bads = []string{"", "a/b/c/d", "3/1/2", "3/-1/1/2/0", "3/x/1/2", "36/0/0/0", "3/-1/1/ 2", "3/99999999/1/2"}
						}
						bad := bads[c.In("malformed", len(bads))]
						place := c.In("placement", 4) // 0: first list [hit,bad]  1: first list [bad,hit]  2: second list [hit,bad]  3: second list [bad,hit]
						hit, other := goodExt, "2/0/1/2/-1"
						if spatial {
							hit, other = goodSp, "2/-1/0/1"
						}
						l := []string{hit, bad}
						if place%2 == 1 {
							l = []string{bad, hit}
						}
						a, b := l, []string{other}
						if place >= 2 {
							a, b = b, a
						}
						var r bool
						var e error
						name := "detector.CheckExtendedSpatialIdsArrayOverlap"
						p := recoverCall(func() {
							if spatial {
								name = "detector.CheckSpatialIdsArrayOverlap"
								r, e = detector.CheckSpatialIdsArrayOverlap(a, b)
							} else {
								r, e = detector.CheckExtendedSpatialIdsArrayOverlap(a, b)
							}
						})
						c.Nontrivial(fmt.Sprint(name, bad, place))
						c.Observe("%s %q %q -> %v %v %v", name, a, b, r, e, p)
						c.Outcome(fmt.Sprint(r, e != nil))
						d := map[string]any{"call": fmt.Sprintf("%s(%s, %s)", name, goList(a), goList(b)), "result": r, "err": fmt.Sprint(e)}
						switch {
						case p != nil:
							d["panic"] = fmt.Sprint(p)
							c.Violation("C15:"+name+":panic-on-malformed-id", d)
						case r && e != nil:
							c.Violation("C15:"+name+":true-together-with-an-error", d)
						case !r && e == nil:
							c.Violation("C15:"+name+":silent-false-for-a-list-with-a-malformed-id", d)
						}
					}},
				{Name: "points", Serial: true, Bounds: engine.Bounds{InputDev: -1},
					Rule: "NewPoint/SetLon/SetLat on float alphabets around +-180 and +-85.0511287798 (sliver (85.0511287798, 85.0511287799) excluded), infinities; accepted points keep lon/alt bit-for-bit and latitude cut toward zero by < 1e-10; nil points in point lookup, line and corridor; non-trivial = distinct coordinates within 1e-6 of a limit",
					Body: pointArgs},
			}, extra...)
		},
	})
}

func numericArgs(c *engine.Ctx) {
	zs := alpha.Int64s
	z := zs[c.In("zoom", len(zs))]
	valid := z >= 0 && z <= 35
	validQ := z >= 1 && z <= 31
	pt, _ := object.NewPoint(139.0, 35.0, 10.0)
	pt2, _ := object.NewPoint(139.0001, 35.0001, 12.0)
	type tc struct {
		name    string
		valid   bool
		run     func() (error, bool) // error, result-empty-or-false
		heavyOK bool
	}
	tile := func(h, v int64) (*object.TileXYZ, error) { return object.NewTileXYZ(h, 0, 0, v, 0) }
	cases := []tc{
		{"shape.GetExtendedSpatialIdsOnPoints(hZoom)", valid, func() (error, bool) {
			r, e := shape.GetExtendedSpatialIdsOnPoints([]*object.Point{pt}, z, 3)
			return e, len(r) == 0
		}, true},
		{"shape.GetExtendedSpatialIdsOnPoints(vZoom)", valid, func() (error, bool) {
			r, e := shape.GetExtendedSpatialIdsOnPoints([]*object.Point{pt}, 3, z)
			return e, len(r) == 0
		}, true},
		{"shape.GetSpatialIdsOnPoints(zoom)", valid, func() (error, bool) {
			r, e := shape.GetSpatialIdsOnPoints([]*object.Point{pt}, z)
			return e, len(r) == 0
		}, true},
		{"shape.GetExtendedSpatialIdsOnLine(hZoom)", valid, func() (error, bool) {
			if valid && z > 20 {
				return nil, false
			}
			r, e := shape.GetExtendedSpatialIdsOnLine(pt, pt2, z, 3)
			return e, len(r) == 0
		}, true},
		{"shape.GetExtendedSpatialIdsOnLine(vZoom)", valid, func() (error, bool) {
			if valid && z > 20 {
				return nil, false
			}
			r, e := shape.GetExtendedSpatialIdsOnLine(pt, pt2, 3, z)
			return e, len(r) == 0
		}, true},
		{"shape.GetSpatialIdsOnLine(zoom)", valid, func() (error, bool) {
			if valid && z > 20 {
				return nil, false
			}
			r, e := shape.GetSpatialIdsOnLine(pt, pt2, z)
			return e, len(r) == 0
		}, true},
		{"integrate.ChangeExtendedSpatialIdsZoom(hZoom)", valid, func() (error, bool) {
			if valid && z > 6 {
				return nil, false
			}
			r, e := integrate.ChangeExtendedSpatialIdsZoom([]string{goodExt}, z, 3)
			return e, len(r) == 0
		}, true},
		{"integrate.ChangeExtendedSpatialIdsZoom(vZoom)", valid, func() (error, bool) {
			if valid && z > 12 {
				return nil, false
			}
			r, e := integrate.ChangeExtendedSpatialIdsZoom([]string{goodExt}, 3, z)
			return e, len(r) == 0
		}, true},
		{"integrate.ChangeSpatialIdsZoom(zoom)", valid, func() (error, bool) {
			if valid && z > 6 {
				return nil, false
			}
			r, e := integrate.ChangeSpatialIdsZoom([]string{goodSp}, z)
			return e, len(r) == 0
		}, true},
		{"integrate.MergeExtendedSpatialIds(hZoom)", valid, func() (error, bool) {
			r, e := integrate.MergeExtendedSpatialIds([]string{goodExt}, z, 3)
			return e, len(r) == 0
		}, true},
		{"integrate.MergeExtendedSpatialIds(vZoom)", valid, func() (error, bool) {
			r, e := integrate.MergeExtendedSpatialIds([]string{goodExt}, 3, z)
			return e, len(r) == 0
		}, true},
		{"integrate.MergeSpatialIds(zoom)", valid, func() (error, bool) {
			r, e := integrate.MergeSpatialIds([]string{goodSp}, z)
			return e, len(r) == 0
		}, true},
		{"transform.ConvertExtendedSpatialIDsToQuadkeysAndVerticalIDs(outputHZoom)", validQ, func() (error, bool) {
			if validQ && z > 8 {
				return nil, false
			}
			r, e := transform.ConvertExtendedSpatialIDsToQuadkeysAndVerticalIDs([]string{goodExt}, z, 3, 0, 0)
			return e, len(r) == 0
		}, true},
		{"transform.ConvertExtendedSpatialIDsToQuadkeysAndVerticalIDs(outputVZoom)", valid, func() (error, bool) {
			if valid && z > 12 {
				return nil, false
			}
			r, e := transform.ConvertExtendedSpatialIDsToQuadkeysAndVerticalIDs([]string{goodExt}, 3, z, 0, 0)
			return e, len(r) == 0
		}, true},
		{"transform.ConvertExtendedSpatialIDsToQuadkeysAndAltitudekeys(outputQuadkeyZoom)", validQ, func() (error, bool) {
			if validQ && z > 8 {
				return nil, false
			}
			r, e := transform.ConvertExtendedSpatialIDsToQuadkeysAndAltitudekeys([]string{goodExt}, z, 3, 25, 1<<24)
			return e, len(r) == 0
		}, true},
		{"transform.ConvertExtendedSpatialIDsToQuadkeysAndAltitudekeys(outputAltitudekeyZoom)", valid, func() (error, bool) {
			if valid {
				return nil, false
			}
			r, e := transform.ConvertExtendedSpatialIDsToQuadkeysAndAltitudekeys([]string{goodExt}, 3, z, 25, 1<<24)
			return e, len(r) == 0
		}, true},
		{"transform.ConvertQuadkeysAndVerticalIDsToExtendedSpatialIDs(quadkeyZoom)", validQ, func() (error, bool) {
			r, e := transform.ConvertQuadkeysAndVerticalIDsToExtendedSpatialIDs([]*object.QuadkeyAndVerticalID{object.NewQuadkeyAndVerticalID(z, 1, 3, 0, 0, 0)}, 3, 3)
			return e, len(r) == 0
		}, true},
		{"transform.ConvertQuadkeysAndVerticalIDsToExtendedSpatialIDs(vZoom)", valid, func() (error, bool) {
			r, e := transform.ConvertQuadkeysAndVerticalIDsToExtendedSpatialIDs([]*object.QuadkeyAndVerticalID{object.NewQuadkeyAndVerticalID(3, 1, z, 0, 0, 0)}, 3, 3)
			return e, len(r) == 0
		}, true},
		{"transform.ConvertQuadkeysAndVerticalIDsToExtendedSpatialIDs(outputHZoom)", valid, func() (error, bool) {
			if valid && z > 8 {
				return nil, false
			}
			r, e := transform.ConvertQuadkeysAndVerticalIDsToExtendedSpatialIDs([]*object.QuadkeyAndVerticalID{object.NewQuadkeyAndVerticalID(3, 1, 3, 0, 0, 0)}, z, 3)
			return e, len(r) == 0
		}, true},
		{"transform.ConvertQuadkeysAndVerticalIDsToSpatialIDs(outputZoom)", valid, func() (error, bool) {
			if valid && z > 8 {
				return nil, false
			}
			r, e := transform.ConvertQuadkeysAndVerticalIDsToSpatialIDs([]*object.QuadkeyAndVerticalID{object.NewQuadkeyAndVerticalID(3, 1, 3, 0, 0, 0)}, z)
			return e, len(r) == 0
		}, true},
		{"object.NewTileXYZ(hZoom)", valid, func() (error, bool) { t, e := tile(z, 3); return e, t == nil }, true},
		{"object.NewTileXYZ(vZoom)", valid, func() (error, bool) { t, e := tile(3, z); return e, t == nil }, true},
		{"transform.ConvertTileXYZsToExtendedSpatialIDs(outputVZoom)", valid, func() (error, bool) {
			t, _ := tile(3, 25)
			if valid && z > 27 {
				return nil, false
			}
			r, e := transform.ConvertTileXYZsToExtendedSpatialIDs([]*object.TileXYZ{t}, 25, 0, z)
			return e, len(r) == 0
		}, true},
		{"operated.GetNspatialIdsAroundVoxcels(hLayers)", z >= 0, func() (error, bool) {
			if z > 3 {
				return nil, false
			}
			r, e := operated.GetNspatialIdsAroundVoxcels([]string{goodExt}, z, 0)
			return e, len(r) == 0
		}, true},
		{"operated.GetNspatialIdsAroundVoxcels(vLayers)", z >= 0, func() (error, bool) {
			if z > 3 {
				return nil, false
			}
			r, e := operated.GetNspatialIdsAroundVoxcels([]string{goodExt}, 0, z)
			return e, len(r) == 0
		}, true},
		{"transform.GetExtendedSpatialIdsWithinRadiusOfLine(hZoom)", valid, func() (error, bool) {
			if valid {
				return nil, false
			}
			r, e := transform.GetExtendedSpatialIdsWithinRadiusOfLine(pt, pt2, 1, z, 3, true)
			return e, len(r) == 0
		}, true},
		{"transform.GetExtendedSpatialIdsWithinRadiusOfLine(vZoom)", valid, func() (error, bool) {
			if valid {
				return nil, false
			}
			r, e := transform.GetExtendedSpatialIdsWithinRadiusOfLine(pt, pt2, 1, 10, z, true)
			return e, len(r) == 0
		}, true},
	}
	k := c.In("function", len(cases)+1)
	if k == len(cases) {
		// zoom-independent invalid arguments
		if c.In("once", 1) == 0 && z == zs[0] {
			miscArgs(c)
		}
		return
	}
	tcx := cases[k]
	var err error
	var empty bool
	p := recoverCall(func() { err, empty = tcx.run() })
	d := map[string]any{"function": tcx.name, "argument": z}
	c.Observe("%s %d %v %v %v", tcx.name, z, err, empty, p)
	if !tcx.valid {
		c.Nontrivial(fmt.Sprint(tcx.name, z))
	}
	c.Outcome(fmt.Sprint(tcx.name, err != nil))
	if p != nil {
		d["panic"] = fmt.Sprint(p)
		c.Violation("C15:"+tcx.name+":panic-on-invalid-argument", d)
		return
	}
	if !tcx.valid {
		if err == nil {
			c.Violation("C15:"+tcx.name+":no-error-for-invalid-argument", d)
		} else if !empty {
			c.Violation("C15:"+tcx.name+":non-empty-result-with-error", d)
		}
	} else if err != nil {
		c.Violation("C15:"+tcx.name+":error-for-valid-argument", d)
	}
}

func miscArgs(c *engine.Ctx) {
	pt, _ := object.NewPoint(139.0, 35.0, 10.0)
	pt2, _ := object.NewPoint(139.0001, 35.0001, 12.0)
	chk := func(name string, err error, p any) {
		d := map[string]any{"function": name}
		c.Nontrivial(name)
		if p != nil {
			d["panic"] = fmt.Sprint(p)
			c.Violation("C15:"+name+":panic-on-invalid-argument", d)
		} else if err == nil {
			c.Violation("C15:"+name+":no-error-for-invalid-argument", d)
		}
	}
	var err error
	for _, opt := range []enum.PointOption{-1, 2} {
		p := recoverCall(func() { _, err = shape.GetPointOnExtendedSpatialId(goodExt, opt) })
		chk(fmt.Sprintf("shape.GetPointOnExtendedSpatialId(option=%d)", opt), err, p)
		p = recoverCall(func() { _, err = shape.GetPointOnSpatialId(goodSp, opt) })
		chk(fmt.Sprintf("shape.GetPointOnSpatialId(option=%d)", opt), err, p)
	}
	p := recoverCall(func() { _, err = transform.GetExtendedSpatialIdsWithinRadiusOfLine(pt, pt2, -1, 10, 10, true) })
	chk("transform.GetExtendedSpatialIdsWithinRadiusOfLine(radius=-1)", err, p)
	p = recoverCall(func() { _, err = transform.GetExtendedSpatialIdsWithinRadiusOfLine(pt, pt2, -1e-9, 10, 10, false) })
	chk("transform.GetExtendedSpatialIdsWithinRadiusOfLine(radius=-1e-9)", err, p)
	p = recoverCall(func() { _, _, err = transform.FitClearanceAroundExtendedSpatialID(goodExt, -1) })
	chk("transform.FitClearanceAroundExtendedSpatialID(clearance=-1)", err, p)
	// nil points
	p = recoverCall(func() { _, err = shape.GetExtendedSpatialIdsOnPoints([]*object.Point{pt, nil}, 3, 3) })
	chk("shape.GetExtendedSpatialIdsOnPoints(nil point)", err, p)
	p = recoverCall(func() { _, err = shape.GetSpatialIdsOnPoints([]*object.Point{nil}, 3) })
	chk("shape.GetSpatialIdsOnPoints(nil point)", err, p)
	p = recoverCall(func() { _, err = shape.GetExtendedSpatialIdsOnLine(nil, pt, 3, 3) })
	chk("shape.GetExtendedSpatialIdsOnLine(nil start)", err, p)
	p = recoverCall(func() { _, err = shape.GetExtendedSpatialIdsOnLine(pt, nil, 3, 3) })
	chk("shape.GetExtendedSpatialIdsOnLine(nil end)", err, p)
	p = recoverCall(func() { _, err = shape.GetSpatialIdsOnLine(nil, nil, 3) })
	chk("shape.GetSpatialIdsOnLine(nil)", err, p)
	p = recoverCall(func() { _, err = transform.GetExtendedSpatialIdsWithinRadiusOfLine(nil, pt, 1, 10, 10, true) })
	chk("transform.GetExtendedSpatialIdsWithinRadiusOfLine(nil start)", err, p)
	p = recoverCall(func() { _, err = transform.GetExtendedSpatialIdsWithinRadiusOfLine(pt, nil, 1, 10, 10, true) })
	chk("transform.GetExtendedSpatialIdsWithinRadiusOfLine(nil end)", err, p)
	// max < min height
	p = recoverCall(func() {
		_, err = transform.ConvertExtendedSpatialIDsToQuadkeysAndVerticalIDs([]string{goodExt}, 3, 3, -1, 1)
	})
	chk("transform.ConvertExtendedSpatialIDsToQuadkeysAndVerticalIDs(maxHeight<minHeight)", err, p)
	p = recoverCall(func() {
		_, err = transform.ConvertQuadkeysAndVerticalIDsToExtendedSpatialIDs([]*object.QuadkeyAndVerticalID{object.NewQuadkeyAndVerticalID(3, 1, 3, 0, -1, 1)}, 3, 3)
	})
	chk("transform.ConvertQuadkeysAndVerticalIDsToExtendedSpatialIDs(maxHeight<minHeight)", err, p)
}

func pointArgs(c *engine.Ctx) {
	const lim = 85.0511287798
	nx := func(v, to float64, n int) float64 {
		for i := 0; i < n; i++ {
			v = math.Nextafter(v, to)
		}
		return v
	}
	lons := []float64{0, math.Copysign(0, -1), 180, -180, nx(180, 0, 1), nx(-180, 0, 1), nx(180, 400, 1), nx(-180, -400, 1), 180.0000001, -180.0000001, 360, -360, 1e300, math.Inf(1), math.Inf(-1), 139.123456789012345}
	lats := []float64{0, math.Copysign(0, -1), lim, -lim, lim - 1e-10, -(lim - 1e-10), nx(lim, 0, 1), nx(-lim, 0, 1), lim + 1e-10, -(lim + 1e-10), lim + 2e-10, 85.06, -85.06, 90, -90, 1e300, math.Inf(1), math.Inf(-1), 35.123456789012345, -35.123456789012345, 1e-10, -1e-10, 5e-11, -5e-11}
	alts := []float64{0, math.Copysign(0, -1), 5e-324, -5e-324, 1 << 25, -(1 << 25), 1e300, -1e300, 12.345}
	lon := lons[c.In("lon", len(lons))]
	lat := lats[c.In("lat", len(lats))]
	alt := alts[c.In("alt", len(alts))]
	var pnt *object.Point
	var err error
	p := recoverCall(func() { pnt, err = object.NewPoint(lon, lat, alt) })
	d := map[string]any{"lon": lon, "lat": lat, "alt": alt, "err": fmt.Sprint(err)}
	c.Observe("%v %v %v -> %v", lon, lat, alt, err)
	if math.Abs(math.Abs(lon)-180) < 1e-6 || math.Abs(math.Abs(lat)-lim) < 1e-6 {
		c.Nontrivial(fmt.Sprint(lon, lat))
	}
	c.Outcome(fmt.Sprint(err != nil))
	if p != nil {
		c.Violation("C15:object.NewPoint:panic", d)
		return
	}
	lonBad := math.Abs(lon) > 180
	latBad := math.Abs(lat) >= lim+1e-10        // clearly beyond the limit
	latSliver := math.Abs(lat) > lim && !latBad // not determined by the statement
	if lonBad || latBad {
		if err == nil {
			c.Violation("C15:object.NewPoint:no-error-for-coordinate-beyond-limit", d)
		}
		return
	}
	if latSliver {
		c.Count("latitude_sliver_not_judged")
		return
	}
	if err != nil {
		c.Violation("C15:object.NewPoint:error-for-valid-coordinate", d)
		return
	}
	if math.Float64bits(pnt.Lon()) != math.Float64bits(lon) || math.Float64bits(pnt.Alt()) != math.Float64bits(alt) {
		d["stored_lon"], d["stored_alt"] = pnt.Lon(), pnt.Alt()
		c.Violation("C15:object.Point:longitude-or-altitude-not-stored-bit-for-bit", d)
	}
	cut := math.Abs(lat) - math.Abs(pnt.Lat())
	ulp := math.Abs(lat) * 4.5e-16
	if cut < -2*ulp || cut >= 1e-10+2*ulp || (lat != 0 && pnt.Lat() != 0 && math.Signbit(lat) != math.Signbit(pnt.Lat())) {
		d["stored_lat"] = pnt.Lat()
		c.Violation("C15:object.Point:latitude-not-cut-toward-zero-by-less-than-1e-10", d)
	}
	// setters agree with the constructor
	var q object.Point
	e1 := q.SetLon(lon)
	e2 := q.SetLat(lat)
	q.SetAlt(alt)
	if e1 != nil || e2 != nil || q != *pnt {
		c.Violation("C15:object.Point:setters-disagree-with-constructor", d)
	}
}
