package props

import (
	"fmt"
	"math"

	"github.com/trajectoryjp/spatial_id_go/v4/common/object"
	"github.com/trajectoryjp/spatial_id_go/v4/detector"
	"github.com/trajectoryjp/spatial_id_go/v4/integrate"
	"github.com/trajectoryjp/spatial_id_go/v4/shape"

	"verif/mc/engine"
	"verif/mc/ref"
)

// Small scopes miss code paths that only exist for long lists (chunking, batching, parallel
// workers, pre-sized buffers). These phases run the list forms on lists around the usual
// thresholds and compare with the one-element form, position by position (or as a set).

var longLens = []int{129, 1000, 1023, 1024, 1025, 4095, 4096, 4097, 4099, 5003, 8191, 8193, 10007, 16385, 65537}

func longLensFor(tier string) []int {
	if tier == "thorough" {
		return append(append([]int{}, longLens...), 100003, 262145)
	}
	return longLens
}

// longPointListPhase (C01): point lookup on long lists.
func longPointListPhase(tier string) engine.Phase {
	lens := longLensFor(tier)
	pool := [][3]float64{{139.7, 35.6, 10}, {-180, -85.05, -1}, {179.9999999999, 85.05, 33554431.5}, {0, 0, 0}, {-1e-9, 1e-9, -1e-9}, {45.5, -60.25, 1234.5}, {-90, 66.5, -33554432}}
	return engine.Phase{Name: "long-lists", ShardDepth: 1, Bounds: engine.Bounds{InputDev: -1},
		Rule: "lists of 129 .. 65 537 points (thorough: to 262 145; lengths around 1024, 4096, 8192, primes) cycling through 7 points whose voxels all differ x zoom pairs {(20,20),(25,3),(0,35)}: entry i of the list result = the single lookup of point i, same length, through both entry points; non-trivial = distinct (length, zooms)",
		Body: func(c *engine.Ctx) {
			n := lens[c.In("len", len(lens))]
			zz := [][2]int64{{20, 20}, {25, 3}, {0, 35}}[c.In("zooms", 3)]
			var pts []*object.Point
			var single []string
			for _, p := range pool {
				pt, _ := object.NewPoint(p[0], p[1], p[2])
				pts = append(pts, pt)
				r, err := shape.GetExtendedSpatialIdsOnPoints([]*object.Point{pt}, zz[0], zz[1])
				if err != nil || len(r) != 1 {
					c.Skip("single-lookup-failed")
				}
				single = append(single, r[0])
			}
			list := make([]*object.Point, n)
			for i := range list {
				list[i] = pts[(i*3+i/7)%len(pts)]
			}
			c.Nontrivial(fmt.Sprint(n, zz))
			c.Observe("%d %v", n, zz)
			got, err := shape.GetExtendedSpatialIdsOnPoints(list, zz[0], zz[1])
			d := map[string]any{"length": n, "zooms": zz}
			if err != nil || len(got) != n {
				d["err"], d["got_n"] = fmt.Sprint(err), len(got)
				c.Violation("C01:long-lists:wrong-length-or-error", d)
				return
			}
			for i := range got {
				if got[i] != single[(i*3+i/7)%len(pts)] {
					d["index"], d["got"], d["want"] = i, got[i], single[(i*3+i/7)%len(pts)]
					c.Violation("C01:long-lists:entry-differs-from-single-lookup", d)
					return
				}
			}
			if zz[0] == zz[1] {
				sp, err := shape.GetSpatialIdsOnPoints(list, zz[0])
				if err != nil || len(sp) != n {
					d["err"], d["got_n"] = fmt.Sprint(err), len(sp)
					c.Violation("C01:long-lists:spatial-form-wrong-length-or-error", d)
					return
				}
				for i := range sp {
					if sp[i] != ref.MustExt(got[i]).Spatial() {
						d["index"], d["got"] = i, sp[i]
						c.Violation("C01:long-lists:spatial-form-entry-differs", d)
						return
					}
				}
			}
		}}
}

// longIDs builds n distinct voxels of one zoom pair (a row-major walk from the far corner).
func longIDs(n int, h, v int64) []ref.Vox {
	side := int64(1) << uint(h)
	r := make([]ref.Vox, 0, n)
	for i := 0; len(r) < n; i++ {
		x := side - 1 - int64(i)%side
		y := (int64(i) / side) % side
		f := int64(i)/(side*side) - 1
		r = append(r, ref.Vox{H: h, X: x, Y: y, V: v, F: f})
	}
	return r
}

// longIDListPhase: list forms over long lists of IDs for C03 (zoom change), C05 (overlap) and C10 (notation).
func longIDListPhase(prop, tier string) engine.Phase {
	lens := longLensFor(tier)
	rule := map[string]string{
		"C03": "lists of 129 .. 65 537 distinct IDs (thorough: to 262 145) at zoom 20/20, the last one repeated at the front: zoom change to the same zooms returns exactly the set of the list; to 19/19 exactly the set of parents (model); one voxel raised to its 16 384 descendants at 26/22; every result is judged when returned and again after the later calls (a result the caller keeps must not be changed by a later call); non-trivial = distinct lengths",
		"C05": "lists A of 129 .. 65 537 pairwise disjoint IDs (thorough: to 262 145) at zoom 20/20 against B = {a descendant of the LAST entry of A} (true) and B = {a voxel outside A} (false), both argument orders, extended and z/f/x/y form; non-trivial = distinct lengths",
		"C10": "lists of 129 .. 65 537 distinct IDs (thorough: to 262 145) at zoom 20: z/f/x/y -> extended -> z/f/x/y is the identity entry by entry, same length; non-trivial = distinct lengths",
	}[prop]
	return engine.Phase{Name: "long-lists", ShardDepth: 1, Bounds: engine.Bounds{InputDev: -1}, Rule: rule,
		Body: func(c *engine.Ctx) {
			n := lens[c.In("len", len(lens))]
			vox := longIDs(n, 20, 20)
			c.Nontrivial(fmt.Sprint(n))
			c.Observe("%d", n)
			d := map[string]any{"length": n, "first": vox[0].Ext(), "last": vox[n-1].Ext()}
			switch prop {
			case "C03":
				ids := append([]string{vox[n-1].Ext()}, ref.Exts(vox)...)
				// results the caller keeps: each is judged when returned and again after later calls
				type heldResult struct {
					what string
					got  []string
					want ref.Set
				}
				var held []heldResult
				judge := func(h heldResult, sig string) bool {
					set, bad, dup := voxelsOf(h.got)
					if bad != "" || dup != "" || !sameVoxSet(set, h.want) {
						d["call"], d["got_n"], d["want_n"], d["dup"], d["bad"] = h.what, len(h.got), len(h.want), dup, bad
						c.Violation(sig, d)
						return false
					}
					return true
				}
				for _, t := range []int64{20, 19} {
					got, err := integrate.ChangeExtendedSpatialIdsZoom(ids, t, t)
					if err != nil {
						c.Violation("C03:long-lists:error-on-valid-input", d)
						return
					}
					h := heldResult{fmt.Sprintf("list of %d -> %d/%d", len(ids), t, t), got, ref.ChangeZoomSet(vox, t, t)}
					if !judge(h, "C03:long-lists:result-differs-from-model") {
						return
					}
					held = append(held, h)
				}
				// one voxel raised to 4^6 * 2^2 = 16 384 descendants (a long RESULT from a short list)
				one := vox[0]
				up, err := integrate.ChangeExtendedSpatialIdsZoom([]string{one.Ext()}, 26, 22)
				if err != nil {
					c.Violation("C03:long-lists:error-on-valid-input", d)
					return
				}
				hu := heldResult{"one voxel -> 26/22", up, ref.ChangeZoomSet([]ref.Vox{one}, 26, 22)}
				if !judge(hu, "C03:long-lists:result-differs-from-model") {
					return
				}
				held = append(held, hu)
				// two small later calls, then every earlier result must still be what it was
				for _, id := range []string{vox[0].Ext(), vox[n-1].Ext()} {
					if _, err := integrate.ChangeExtendedSpatialIdsZoom([]string{id}, 21, 21); err != nil {
						c.Violation("C03:long-lists:error-on-valid-input", d)
						return
					}
				}
				for _, h := range held {
					if !judge(h, "C03:long-lists:earlier-result-changed-by-a-later-call") {
						return
					}
				}
			case "C05":
				a := ref.Exts(vox)
				inside := vox[n-1].ChangeZoom(22, 21)[3]
				outside := ref.Vox{H: 20, X: 5, Y: (int64(1) << 20) - 1, V: 20, F: 7}
				for _, t := range []struct {
					b    ref.Vox
					want bool
				}{{inside, true}, {outside, false}} {
					g1, e1 := detector.CheckExtendedSpatialIdsArrayOverlap(a, []string{t.b.Ext()})
					g2, e2 := detector.CheckExtendedSpatialIdsArrayOverlap([]string{t.b.Ext()}, a)
					if e1 != nil || e2 != nil || g1 != t.want || g2 != t.want {
						d["b"], d["want"], d["got"] = t.b.Ext(), t.want, fmt.Sprint(g1, g2, e1, e2)
						c.Violation("C05:long-lists:answer-differs-from-model", d)
						return
					}
				}
				// z/f/x/y form (inside the altitude range it is documented for: zoom 20, f in -1..)
				sa := make([]string, n)
				for i, v := range vox {
					sa[i] = v.Spatial()
				}
				sin := vox[n-1].ChangeZoom(21, 21)[5]
				g1, e1 := detector.CheckSpatialIdsArrayOverlap(sa, []string{sin.Spatial()})
				g2, e2 := detector.CheckSpatialIdsArrayOverlap([]string{sin.Spatial()}, sa)
				g3, e3 := detector.CheckSpatialIdsArrayOverlap(sa, []string{outside.Spatial()})
				if e1 != nil || e2 != nil || e3 != nil || !g1 || !g2 || g3 {
					d["got"] = fmt.Sprint(g1, g2, g3, e1, e2, e3)
					c.Violation("C05:long-lists:spatial-form-answer-differs-from-model", d)
				}
			case "C10":
				sa := make([]string, n)
				for i, v := range vox {
					sa[i] = v.Spatial()
				}
				in, chk := guardedList(sa)
				ext, err := shape.ConvertSpatialIdsToExtendedSpatialIds(in)
				if err != nil || len(ext) != n {
					d["err"], d["got_n"] = fmt.Sprint(err), len(ext)
					c.Violation("C10:long-lists:wrong-length-or-error", d)
					return
				}
				for i := range ext {
					if ext[i] != vox[i].Ext() {
						d["index"], d["got"] = i, ext[i]
						c.Violation("C10:long-lists:entry-is-not-the-component-permutation", d)
						return
					}
				}
				back, err := shape.ConvertExtendedSpatialIdsToSpatialIds(ext)
				if err != nil || len(back) != n {
					c.Violation("C10:long-lists:wrong-length-or-error", d)
					return
				}
				for i := range back {
					if back[i] != sa[i] {
						d["index"], d["got"] = i, back[i]
						c.Violation("C10:long-lists:round-trip-is-not-the-identity", d)
						return
					}
				}
				if m := chk(); m != "" {
					c.Violation("C10:long-lists:input-slice-modified["+m+"]", d)
				}
			}
		}}
}

// longProjectionListPhase (C18): projection of long lists.
func longProjectionListPhase(tier string) engine.Phase {
	lens := longLensFor(tier)
	return engine.Phase{Name: "long-lists", ShardDepth: 1, Bounds: engine.Bounds{InputDev: -1},
		Rule: "lists of 129 .. 65 537 points (thorough: to 262 145) cycling through 5 positions with a distinct altitude per entry (i * 2^-20 m, so that the known altitude sensitivity of the projection stays below the tolerance), EPSG:3857: same length, entry i carries altitude i bit for bit in both directions and the X,Y of the single conversion of its position; non-trivial = distinct lengths",
		Body: func(c *engine.Ctx) {
			n := lens[c.In("len", len(lens))]
			pos := [][2]float64{{139.7, 35.6}, {-179.5, -84}, {0, 0}, {45.25, 66.5}, {-90, -1e-9}}
			var one []*object.ProjectedPoint
			for _, p := range pos {
				pt, _ := object.NewPoint(p[0], p[1], 0)
				r, err := shape.ConvertPointListToProjectedPointList([]*object.Point{pt}, 3857)
				if err != nil || len(r) != 1 {
					c.Skip("single-conversion-failed")
				}
				one = append(one, r[0])
			}
			list := make([]*object.Point, n)
			for i := range list {
				p := pos[(i*2+i/5)%len(pos)]
				list[i], _ = object.NewPoint(p[0], p[1], float64(i)/1048576)
			}
			c.Nontrivial(fmt.Sprint(n))
			c.Observe("%d", n)
			d := map[string]any{"length": n}
			pr, err := shape.ConvertPointListToProjectedPointList(list, 3857)
			if err != nil || len(pr) != n {
				d["err"], d["got_n"] = fmt.Sprint(err), len(pr)
				c.Violation("C18:long-lists:wrong-length-or-error", d)
				return
			}
			for i := range pr {
				w := one[(i*2+i/5)%len(pos)]
				if math.Float64bits(pr[i].Alt) != math.Float64bits(float64(i)/1048576) || math.Abs(pr[i].X-w.X) > 1e-6 || math.Abs(pr[i].Y-w.Y) > 1e-6 {
					d["index"], d["got"] = i, fmt.Sprint(*pr[i])
					c.Violation("C18:long-lists:entry-differs-from-single-conversion", d)
					return
				}
			}
			back, err := shape.ConvertProjectedPointListToPointList(pr, 3857)
			if err != nil || len(back) != n {
				d["err"], d["got_n"] = fmt.Sprint(err), len(back)
				c.Violation("C18:long-lists:inverse-wrong-length-or-error", d)
				return
			}
			for i := range back {
				p := pos[(i*2+i/5)%len(pos)]
				if math.Float64bits(back[i].Alt()) != math.Float64bits(float64(i)/1048576) || lonDiff(back[i].Lon(), p[0]) > 2e-10 || math.Abs(back[i].Lat()-p[1]) > 2e-10 {
					d["index"], d["got"] = i, fmt.Sprint(back[i].Lon(), back[i].Lat(), back[i].Alt())
					c.Violation("C18:long-lists:inverse-entry-differs", d)
					return
				}
			}
		}}
}
