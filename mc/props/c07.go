// Package props holds one harness per property.
package props

import (
	"fmt"
	"math"
	"strconv"
	"time"

	"github.com/trajectoryjp/spatial_id_go/v4/operated"

	"verif/mc/alpha"
	"verif/mc/engine"
	"verif/mc/ref"
)

func zooms(tier string) []int64 {
	if tier == "thorough" {
		return alpha.Zall
	}
	return alpha.Zedge
}

func shiftOffsets(h int64) []int64 {
	n := int64(1) << uint(h)
	seen := map[int64]bool{}
	var r []int64
	for _, v := range []int64{0, 1, -1, 2, -2, n - 1, -(n - 1), n, -n, n + 1, -(n + 1), 4 * n, -4 * n} {
		if !seen[v] {
			seen[v] = true
			r = append(r, v)
		}
	}
	return r
}

func init() {
	engine.Register(&engine.Check{
		ID:        "C07",
		Title:     "Shifting an ID is modular translation on the grid",
		Technique: "exhaustive choice-tree enumeration (E1) of IDs x shifts against integer modular arithmetic; explicit-state search (E2) of the complete torus state space at zooms 0..3",
		Assumptions: []string{
			"inputs outside the alphabets (index classes per zoom, offset classes relative to 2^h) are not covered",
			"reference model ref.Vox.Shift (integer modular arithmetic) is trusted",
		},
		Phases: func(tier string) []engine.Phase {
			zs := zooms(tier)
			dvs := []int64{0, 1, -1, 1 << 40, -(1 << 40)}
			return []engine.Phase{
				respellNeighbourPhase("C07", tier),
				{
					Name: "shift-vs-model", ShardDepth: 2, Bounds: engine.Bounds{EnvDev: 0, InputDev: -1},
					Rule: "full product h in zooms x v in {0,h,35} x (x,y) in HIdx(h)^2 x f in VIdxSmall(v) x (dx,dy) in offsets(h)^2 x dv in 9 values (0, +-1, +-2^40 and the four shifts that land on or next to the int64 extremes); non-trivial = distinct (h,x,y,dx,dy) whose shift wraps on at least one axis",
					Body: func(c *engine.Ctx) {
						h := zs[c.In("h", len(zs))]
						hx := alpha.HIdx(h)
						x := hx[c.In("x", len(hx))]
						y := hx[c.In("y", len(hx))]
						vs := []int64{0, h, 35}
						v := vs[c.In("v", len(vs))]
						fs := alpha.VIdxSmall(v)
						f := fs[c.In("f", len(fs))]
						offs := shiftOffsets(h)
						dx := offs[c.In("dx", len(offs))]
						dy := offs[c.In("dy", len(offs))]
						dvAll := append(append([]int64{}, dvs...), math.MaxInt64-f, math.MinInt64-f, math.MaxInt64-f-1, math.MinInt64-f+1)
						if f > 0 {
							dvAll[len(dvAll)-3] = math.MinInt64 // keeps f+dv inside 64 bits for positive f
						} else if f < 0 {
							dvAll[len(dvAll)-4] = math.MaxInt64
						}
						dv := dvAll[c.In("dv", len(dvAll))]
						in := ref.Vox{H: h, X: x, Y: y, V: v, F: f}
						got := operated.GetShiftingSpatialID(in.Ext(), dx, dy, dv)
						want := in.Shift(dx, dy, dv).Ext()
						c.Observe("%s %d %d %d -> %s", in.Ext(), dx, dy, dv, got)
						n := int64(1) << uint(h)
						if x+dx < 0 || x+dx >= n || y+dy < 0 || y+dy >= n {
							c.Nontrivial(fmt.Sprint(h, x, y, dx, dy))
						}
						c.Outcome(got)
						if c.WantSample() && dx != 0 {
							c.Sample(map[string]any{"id": in.Ext(), "dx": dx, "dy": dy, "dv": dv, "got": got, "want": want})
						}
						if got != want {
							c.Violation("C07:GetShiftingSpatialID:result-differs-from-modular-shift", map[string]any{
								"id": in.Ext(), "dx": dx, "dy": dy, "dv": dv, "got": got, "want": want,
								"call": fmt.Sprintf("operated.GetShiftingSpatialID(%q, %d, %d, %d)", in.Ext(), dx, dy, dv)})
						}
					},
				},
				{
					Name: "shift-laws", ShardDepth: 2, Bounds: engine.Bounds{EnvDev: 0, InputDev: -1},
					Rule: "full product h x (x,y) in HIdxSmall(h)^2 x f in {0,-1} x two shifts from a 9-offset sub-alphabet each on (dx,dy,dv); laws: identity, composition = shift by sum, inverse; non-trivial = distinct cases where the two shifts are both non-zero",
					Body: func(c *engine.Ctx) {
						h := zs[c.In("h", len(zs))]
						hx := alpha.HIdxSmall(h)
						x := hx[c.In("x", len(hx))]
						y := hx[c.In("y", len(hx))]
						f := []int64{0, -1}[c.In("f", 2)]
						n := int64(1) << uint(h)
						sub := []int64{0, 1, -1, n - 1, -n, n + 1}
						type sh struct{ x, y, v int64 }
						var shifts []sh
						for _, a := range sub {
							shifts = append(shifts, sh{a, 0, 0}, sh{0, a, 1}, sh{a, -a, -1})
						}
						s1 := shifts[c.In("s1", len(shifts))]
						s2 := shifts[c.In("s2", len(shifts))]
						id := ref.Vox{H: h, X: x, Y: y, V: h, F: f}.Ext()
						a := operated.GetShiftingSpatialID(id, s1.x, s1.y, s1.v)
						ab := operated.GetShiftingSpatialID(a, s2.x, s2.y, s2.v)
						sum := operated.GetShiftingSpatialID(id, s1.x+s2.x, s1.y+s2.y, s1.v+s2.v)
						back := operated.GetShiftingSpatialID(a, -s1.x, -s1.y, -s1.v)
						zero := operated.GetShiftingSpatialID(id, 0, 0, 0)
						c.Observe("%s %v %v -> %s %s %s %s", id, s1, s2, a, ab, sum, back)
						if (s1 != sh{}) && (s2 != sh{}) {
							c.Nontrivial(id + fmt.Sprint(s1, s2))
						}
						c.Outcome(ab)
						d := map[string]any{"id": id, "s1": fmt.Sprint(s1), "s2": fmt.Sprint(s2), "a": a, "ab": ab, "sum": sum, "back": back, "zero": zero}
						if zero != id {
							c.Violation("C07:GetShiftingSpatialID:zero-shift-not-identity", d)
						}
						if ab != sum {
							c.Violation("C07:GetShiftingSpatialID:composition-differs-from-sum", d)
						}
						if back != id {
							c.Violation("C07:GetShiftingSpatialID:inverse-does-not-restore", d)
						}
					},
				},
				{
					Name: "torus-bfs", Rule: "explicit-state BFS for h in 0..3: states = all IDs reachable on the 2^h x 2^h x 5 grid, ops = 26 unit shifts + jumps of +-2^h, +-(2^h+1), +-4*2^h on x and y; every transition compared with the model; non-trivial = transitions whose model result wraps",
					Custom: torusBFS, ReplayCustom: torusReplay,
				},
			}
		},
	})
}

type torusOp struct{ dx, dy, dv int64 }

func torusOps(h int64) []torusOp {
	var ops []torusOp
	for dx := int64(-1); dx <= 1; dx++ {
		for dy := int64(-1); dy <= 1; dy++ {
			for dv := int64(-1); dv <= 1; dv++ {
				if dx != 0 || dy != 0 || dv != 0 {
					ops = append(ops, torusOp{dx, dy, dv})
				}
			}
		}
	}
	n := int64(1) << uint(h)
	for _, j := range []int64{n, -n, n + 1, -(n + 1), 4 * n, -4 * n} {
		ops = append(ops, torusOp{j, 0, 0}, torusOp{0, j, 0}, torusOp{j, j, 0})
	}
	return ops
}

func torusBFS(shard, nshards int, deadline time.Time, st *engine.Stats) {
	for h := int64(0); h <= 3; h++ {
		if int(h)%nshards != shard {
			continue
		}
		ops := torusOps(h)
		start := ref.Vox{H: h, X: 0, Y: 0, V: 3, F: 0}
		seen := map[string]bool{start.Ext(): true}
		frontier := []ref.Vox{start}
		depth := 0
		for len(frontier) > 0 {
			var next []ref.Vox
			for _, s := range frontier {
				for _, op := range ops {
					want := s.Shift(op.dx, op.dy, op.dv)
					if want.F < -2 || want.F > 2 {
						continue // vertical band of 5 cells bounds the state space
					}
					got := operated.GetShiftingSpatialID(s.Ext(), op.dx, op.dy, op.dv)
					st.Transitions++
					st.Validated++
					n := int64(1) << uint(h)
					if s.X+op.dx < 0 || s.X+op.dx >= n || s.Y+op.dy < 0 || s.Y+op.dy >= n {
						st.AddNontrivial(s.Ext() + fmt.Sprint(op))
					}
					if got != want.Ext() {
						st.ViolationN++
						sig := "C07:GetShiftingSpatialID:torus-transition-differs-from-model"
						st.SigCounts[sig]++
						if len(st.Violations) < 5 {
							st.Violations = append(st.Violations, engine.Violation{Property: "C07", Sig: sig, Detail: map[string]any{
								"state": s.Ext(), "dx": op.dx, "dy": op.dy, "dv": op.dv, "got": got, "want": want.Ext()}})
						}
						continue
					}
					if !seen[got] {
						seen[got] = true
						next = append(next, want)
					}
				}
			}
			frontier = next
			depth++
		}
		st.States += int64(len(seen))
		st.Executions += int64(len(seen))
		if depth > st.MaxDepth {
			st.MaxDepth = depth
		}
		st.Counters["torus_states_h"+strconv.FormatInt(h, 10)] = int64(len(seen))
		if len(st.Samples) < 3 {
			st.Samples = append(st.Samples, map[string]any{"h": h, "reachable_states": len(seen), "ops": len(ops), "bfs_depth": depth})
		}
	}
}

func torusReplay(v engine.Violation) []engine.Violation {
	s, _ := v.Detail["state"].(string)
	dx := toI(v.Detail["dx"])
	dy := toI(v.Detail["dy"])
	dv := toI(v.Detail["dv"])
	got := operated.GetShiftingSpatialID(s, dx, dy, dv)
	want := ref.MustExt(s).Shift(dx, dy, dv).Ext()
	if got != want {
		return []engine.Violation{{Property: "C07", Sig: v.Sig, Detail: map[string]any{"state": s, "dx": dx, "dy": dy, "dv": dv, "got": got, "want": want}}}
	}
	return nil
}

func toI(v any) int64 {
	switch t := v.(type) {
	case float64:
		return int64(t)
	case int64:
		return t
	case int:
		return int64(t)
	}
	return 0
}
