// Package alpha defines the finite input alphabets the explorers enumerate
// (DESIGN.md 3.6). Alphabets are ordered simplest-first.
package alpha

import "math"

// Zall is every zoom level.
var Zall = seq(0, 35)

// Zedge is the reduced zoom alphabet of the quick tier.
var Zedge = []int64{0, 1, 2, 3, 7, 16, 24, 25, 26, 30, 31, 32, 33, 34, 35}

func seq(a, b int64) []int64 {
	var r []int64
	for i := a; i <= b; i++ {
		r = append(r, i)
	}
	return r
}

// Seq is the inclusive integer range.
func Seq(a, b int64) []int64 { return seq(a, b) }

func dedupe(in []int64, keep func(int64) bool) []int64 {
	seen := map[int64]bool{}
	var r []int64
	for _, v := range in {
		if !keep(v) || seen[v] {
			continue
		}
		seen[v] = true
		r = append(r, v)
	}
	return r
}

// HIdx is the horizontal index alphabet at zoom z: first/last, the middle
// pair, alternating bit patterns.
func HIdx(z int64) []int64 {
	n := int64(1) << uint(z)
	mask := n - 1
	return dedupe([]int64{0, 1, 2, n/2 - 1, n / 2, n - 2, n - 1, 0x5555555555555555 & mask, 0x2AAAAAAAAAAAAAAA & mask},
		func(v int64) bool { return v >= 0 && v < n })
}

// HIdxSmall is a 4-value horizontal alphabet.
func HIdxSmall(z int64) []int64 {
	n := int64(1) << uint(z)
	mask := n - 1
	return dedupe([]int64{0, n - 1, n / 2, 0x5555555555555555 & mask}, func(v int64) bool { return v >= 0 && v < n })
}

// VIdx is the vertical index alphabet at zoom z (both signs, both ends).
func VIdx(z int64) []int64 {
	n := int64(1) << uint(z)
	return dedupe([]int64{0, -1, 1, -2, 2, -3, n - 1, -n, n - 2, -n + 1},
		func(v int64) bool { return v >= -n && v < n })
}

// VIdxSmall is a 4-value vertical alphabet.
func VIdxSmall(z int64) []int64 {
	n := int64(1) << uint(z)
	return dedupe([]int64{0, -1, n - 1, -n}, func(v int64) bool { return v >= -n && v < n })
}

// Int64s is the alphabet for free int64 arguments (zooms, layer counts).
var Int64s = []int64{0, 1, 35, -1, 36, 31, 32, math.MinInt64, math.MaxInt64, -(1 << 31), 1 << 31}
