module verif/mc

go 1.22

require github.com/trajectoryjp/spatial_id_go/v4 v4.0.0

require (
	github.com/wroge/wgs84 v1.1.7 // indirect
	gonum.org/v1/gonum v0.15.1 // indirect
)

replace github.com/trajectoryjp/spatial_id_go/v4 => /repo
