#!/bin/bash
# usage: ./check.sh <property-id> quick|thorough      run the check for one property
#        ./check.sh <property-id> replay <file>       replay a recorded violation
# Rebuilds the model checker from /repo's current working tree on every call.
set -u
cd "$(dirname "$0")"
export GOFLAGS=-mod=mod GOPROXY=off GOSUMDB=off GOTOOLCHAIN=local
ID="${1:?property id}"; MODE="${2:-quick}"
mkdir -p .build/bin evidence
[ -f .build/overlay.json ] || python3 tools/mkoverlay.py >/dev/null || { echo "check.sh: runtime overlay generation failed" >&2; exit 2; }
cmp -s /repo/go.sum mc/go.sum || cp /repo/go.sum mc/go.sum
BIN=".build/bin/mc-$ID-$$"
trap 'rm -f "$BIN"' EXIT
if ! (cd mc && go build -tags verif -overlay ../.build/overlay.json -o "../$BIN" ./cmd/mc) 2>.build/build-$ID.log; then
  cat .build/build-$ID.log >&2
  echo "check.sh: build failed (infrastructure error, not a property verdict)" >&2
  exit 2
fi
case "$MODE" in
  quick|thorough) "$BIN" -prop "$ID" -tier "$MODE"; exit $? ;;
  replay) "$BIN" -replay "${3:?replay file}"; exit $? ;;
  *) echo "unknown mode $MODE" >&2; exit 2 ;;
esac
