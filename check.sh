#!/bin/bash
# usage: ./check.sh <property-id> quick|thorough      run the check for one property
#        ./check.sh <property-id> replay <file>       replay a recorded violation
# Rebuilds the model checker from /repo's current working tree on every call.
set -u
cd "$(dirname "$0")"
export GOFLAGS=-mod=mod GOPROXY=off GOSUMDB=off GOTOOLCHAIN=local
export VERIF_DIR="$PWD"
# the library under test: /repo, or a snapshot of it for background runs (VERIF_REPO)
REPO="${VERIF_REPO:-/repo}"
ID="${1:?property id}"; MODE="${2:-quick}"
mkdir -p .build/bin evidence
[ -f .build/overlay.json ] || python3 tools/mkoverlay.py >/dev/null || { echo "check.sh: runtime overlay generation failed" >&2; exit 2; }
cmp -s "$REPO/go.sum" mc/go.sum || cp "$REPO/go.sum" mc/go.sum
MODFLAG=""
if [ "$REPO" != "/repo" ]; then
  # alternate go.mod whose replace directive points at the snapshot
  sed "s#=> /repo#=> $REPO#" mc/go.mod > ".build/alt-$$.mod"; cp mc/go.sum ".build/alt-$$.sum"
  MODFLAG="-modfile=$PWD/.build/alt-$$.mod"
fi
BIN=".build/bin/mc-$ID-$$"
RACEBIN=".build/bin/race19-$$"
WORK=".build/c19-$$"
trap 'rm -rf "$BIN" "$RACEBIN" "$WORK" ".build/alt-$$.mod" ".build/alt-$$.sum"' EXIT
fail_build() { cat .build/build-$ID.log >&2; echo "check.sh: build failed (infrastructure error, not a property verdict)" >&2; exit 2; }
if [ "$ID" = "C19" ]; then
  # C19: re-instrument the current tree (library + first-party dependencies), build the
  # interleaving explorer with the instrumentation overlay and the free-running -race binary
  mkdir -p "$WORK/instr"
  (cd "$REPO" && go list -f '{{.ImportPath}} {{.Dir}}' ./... github.com/trajectoryjp/closest_go github.com/trajectoryjp/geodesy_go/coordinates \
      github.com/trajectoryjp/multidimensional-radix-tree/src/tree github.com/wroge/wgs84 | grep -v /examples/) > "$WORK/pkgs.txt" 2>.build/build-$ID.log || fail_build
  (cd mc && go build -o "../$WORK/instr-bin" ./cmd/instr) 2>.build/build-$ID.log || fail_build
  "$WORK/instr-bin" -out "$PWD/$WORK/instr" -overlay-in "$PWD/.build/overlay.json" -overlay-out "$PWD/$WORK/overlay.json" \
      -repo "$REPO" -vrt "$PWD/mc/_vrtsrc" -report "$PWD/$WORK/instr/report.json" "$WORK/pkgs.txt" >.build/build-$ID.log 2>&1 || fail_build
  (cd mc && GODEBUG=goindex=0 go build $MODFLAG -tags verif -overlay "../$WORK/overlay.json" -o "../$BIN" ./cmd/mc19) 2>.build/build-$ID.log || fail_build
  (cd mc && go build $MODFLAG -race -o "../$RACEBIN" ./cmd/race19) 2>.build/build-$ID.log || fail_build
  export VERIF_RACE19="$PWD/$RACEBIN" VERIF_INSTR_REPORT="$PWD/$WORK/instr/report.json"
else
  (cd mc && go build $MODFLAG -tags verif -overlay ../.build/overlay.json -o "../$BIN" ./cmd/mc) 2>.build/build-$ID.log || fail_build
fi
case "$MODE" in
  quick|thorough) "$BIN" -prop "$ID" -tier "$MODE"; exit $? ;;
  replay) "$BIN" -replay "${3:?replay file}"; exit $? ;;
  *) echo "unknown mode $MODE" >&2; exit 2 ;;
esac
